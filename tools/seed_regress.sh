#!/bin/bash
# tools/seed_regress.sh [SEED_ID ...] : re-apply every stored seeded change to a fresh scratch worktree of /repo's HEAD and
# re-run the quick tier of the check of its property (plus any check named in meta.json "caught_by"); prints one line per seed.
# The worktree lives in /dev/shm or /tmp and is removed afterwards. Nothing is written to /repo.
cd /verif || exit 2
IDS=${@:-$(ls seeded | grep -v REGRESSION)}
WT=$(mktemp -d /tmp/wt_regress.XXXX); rmdir $WT
git -C /repo worktree add -q --detach $WT HEAD || exit 2
for id in $IDS; do
  d=seeded/$id
  [ -f $d/patch.diff ] || continue
  if ! git -C $WT apply /verif/$d/patch.diff 2>/dev/null; then
    if ! git -C $WT apply -3 /verif/$d/patch.diff 2>/dev/null; then echo "$id: patch does not apply to HEAD"; git -C $WT checkout -q . ; continue; fi
  fi
  prop=${id%%-*}
  checks=$(python3 - $d/meta.json $prop <<'EOF'
import json, re, sys
m = json.load(open(sys.argv[1])); out = [sys.argv[2]]
for c in re.findall(r"C\d\d", str(m.get("caught_by", ""))):
    if c not in out: out.append(c)
print(" ".join(out))
EOF
)
  line="$id:"
  for c in $checks; do
    out=$(VERIF_REPO=$WT ./check $c --no-evidence 2>&1)
    n=$(echo "$out" | grep -c "^VIOLATION")
    first=$(echo "$out" | grep -m1 '^  ' | cut -c3-120)
    line="$line $c=$n [$first]"
  done
  echo "$line"
  git -C $WT reset -q --hard HEAD; git -C $WT clean -qfd
done
git -C /repo worktree remove --force $WT
