#!/bin/bash
# tools/mut.sh <PROP[,PROP]> <file-relative-to-repo> <sed-expr> : apply mutation in scratch worktree /tmp/wt_main, run checks, revert
WT=/tmp/wt_main
[ -d $WT ] || git -C /repo worktree add --detach $WT >/dev/null 2>&1
git -C $WT checkout -q --detach $(git -C /repo rev-parse HEAD) 2>/dev/null
git -C $WT checkout -- .
sed -i "$3" "$WT/$2"
if git -C $WT diff --quiet; then echo "MUTATION DID NOT APPLY"; exit 2; fi
for p in ${1//,/ }; do
  out=$(cd /verif && VERIF_REPO=$WT ./check $p --no-evidence ${TIER:+--tier $TIER} 2>&1)
  n=$(echo "$out" | grep -c "^VIOLATION")
  echo "$p: violations=$n  $(echo "$out" | grep -m1 '^  ' | cut -c1-200)"
done
git -C $WT checkout -- .
