#!/venv/bin/python
"""Run the repository's pinned baseline (BASELINE.json) on a checkout and compare with stable_pass.
usage: baseline.py [repo_dir]   (default /repo)  -> exit 0 iff every stable_pass test passes"""
import json, subprocess, sys, tempfile, os, xml.etree.ElementTree as ET
repo = sys.argv[1] if len(sys.argv) > 1 else "/repo"
base = json.load(open("/root/.vp/BASELINE.json"))
out = tempfile.mktemp(suffix=".xml", dir="/dev/shm")
env = dict(os.environ); env.pop("SYNE_TUNE_VERIF", None)
if repo != "/repo":
    env["PYTHONPATH"] = repo
cmd = ["/venv/bin/python", "-m", "pytest", "-ra", "-q", "-p", "no:cacheprovider", "--timeout=900",
       "--continue-on-collection-errors", f"--junitxml={out}"] + sys.argv[2:]
p = subprocess.run(cmd, cwd=repo, env=env, capture_output=True, text=True)
passed = set()
for tc in ET.parse(out).getroot().iter("testcase"):
    if not list(tc):
        passed.add(f"{tc.get('classname')}::{tc.get('name')}")
os.remove(out)
missing = [t for t in base["stable_pass"] if t not in passed]
print(p.stdout[-600:])
print(f"stable_pass={len(base['stable_pass'])} passed_now={len(passed)} missing={len(missing)}")
for m in missing[:30]:
    print("  MISSING", m)
sys.exit(1 if missing else 0)
