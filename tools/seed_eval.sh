#!/bin/bash
# tools/seed_eval.sh <SEED_ID> <worktree> <PROP[,PROP..]> : confirm a seeded change (tests still pass, demo fails with / passes without),
# run the listed checks against it and store it under /verif/seeded/<SEED_ID>/
ID=$1; WT=$2; PROPS=$3
OUT=/verif/seeded/$ID; mkdir -p $OUT
cd $WT || exit 2
DEMO=$(ls demo_*.py | head -1)
git diff -- syne_tune > $OUT/patch.diff
cp $DEMO $OUT/
[ -s $OUT/patch.diff ] || { echo "no diff"; exit 2; }
echo "== baseline with change"; /venv/bin/python /verif/tools/baseline.py $WT 2>&1 | tail -3 | tee $OUT/baseline.txt
echo "== demo with change"; PYTHONPATH=$WT timeout 600 /venv/bin/python $DEMO > $OUT/demo_with.txt 2>&1; W=$?; tail -3 $OUT/demo_with.txt; echo "exit=$W"
git apply -R $OUT/patch.diff
echo "== demo without change"; PYTHONPATH=$WT timeout 600 /venv/bin/python $DEMO > $OUT/demo_without.txt 2>&1; WO=$?; tail -2 $OUT/demo_without.txt; echo "exit=$WO"
git apply $OUT/patch.diff
RES=""
for p in ${PROPS//,/ }; do
  out=$(cd /verif && VERIF_REPO=$WT ./check $p --no-evidence 2>&1)
  n=$(echo "$out" | grep -c "^VIOLATION")
  first=$(echo "$out" | grep -m1 '^  ' | cut -c1-240)
  echo "== check $p: violations=$n $first"
  RES="$RES{\"check\":\"$p\",\"violations\":$n,\"first\":$(python3 -c 'import json,sys; print(json.dumps(sys.argv[1]))' "$first")},"
done
cat > $OUT/meta.json <<EOM
{"seed_id": "$ID", "demo": "$DEMO", "demo_exit_with_change": $W, "demo_exit_without_change": $WO,
 "baseline": $(python3 -c 'import json,sys; print(json.dumps(open(sys.argv[1]).read().strip().splitlines()[-1] if open(sys.argv[1]).read().strip() else ""))' $OUT/baseline.txt),
 "checks_run": [${RES%,}]}
EOM
cat $OUT/meta.json
