"""C06 reference: configuration spaces as plain data, membership / value type / mid-point rule / imputation of
``points_to_evaluate`` / grid, all computed from the *constructor arguments* (nothing here calls a Domain method).

A space is an ordered list of ``(key, spec)``; ``spec`` is a JSON-able list whose head is the public constructor name:

  ["const", v]                               ["choice", [..]]
  ["uniform", lo, hi]  ["loguniform", lo, hi]  ["reverseloguniform", lo, hi]
  ["randint", lo, hi]  ["lograndint", lo, hi]
  ["quniform", lo, hi, q] ["qloguniform", lo, hi, q] ["qrandint", lo, hi, q] ["qlograndint", lo, hi, q]
  ["finrange", lo, hi, n, cast_int]  ["logfinrange", lo, hi, n, cast_int]
  ["ordinal", [..], kind]   (kind "equal" | "nn" | "nn-log")      ["logordinal", [..]]

Quantised constructors: quantisation is a property of the *sampler* (C07 checks it); here the domain of a q*
constructor is the closed interval with the value type, and the mid-point may be arithmetic or geometric.
"""
import itertools
import math

RTOL = 1e-9
ATOL = 1e-12

FLOAT_KINDS = {"uniform", "loguniform", "reverseloguniform", "quniform", "qloguniform"}
INT_KINDS = {"randint", "lograndint", "qrandint", "qlograndint"}
LOG_KINDS = {"loguniform", "lograndint", "logfinrange", "logordinal"}
QLOG_KINDS = {"qloguniform", "qlograndint"}


# ------------------------------------------------------------------------------------------------ catalogue

SPACES = {
    # size 6, the work-horse for exhaustion
    "fin6": [("c", ["choice", ["a", "b", "c"]]), ("i", ["randint", 0, 1]), ("k", ["const", 7])],
    # size 9: finite numerical domains
    "fin9": [("f", ["finrange", 0.1, 0.5, 3, False]), ("o", ["ordinal", [1, 2, 5], "nn"]), ("ks", ["const", "z"])],
    # size 4 without any nearest-neighbour ordinal (DEHB can run it), int-valued choice
    "fin4": [("ci", ["choice", [3, 1]]), ("fi", ["finrange", 0, 4, 2, True]), ("kf", ["const", 0.5])],
    # size 1: every domain degenerate
    "degen": [("c1", ["choice", ["x"]]), ("r", ["randint", 3, 3]), ("u", ["uniform", 0.5, 0.5])],
    # infinite
    "inf": [("u", ["uniform", 0.0, 1.0]), ("li", ["lograndint", 1, 64])],
    # log domains, equal-kind ordinal, int finite ranges (size infinite because of lu)
    "mix": [("lu", ["loguniform", 1e-3, 1.0]), ("lf", ["logfinrange", 1.0, 8.0, 4, True]),
            ("oe", ["ordinal", ["s", "m", "l"], "equal"]), ("fi", ["finrange", 0, 6, 4, True])],
    # finite, log scaled: size 3*3*2 = 18
    "finlog": [("lf", ["logfinrange", 0.5, 8.0, 3, False]), ("lo", ["logordinal", [1, 4, 64]]),
               ("li", ["lograndint", 1, 2])],
    # quantised / reverse-log constructors (sampling searchers only)
    "quant": [("qu", ["quniform", 0.0, 1.0, 0.25]), ("qi", ["qrandint", 0, 8, 4]),
              ("rl", ["reverseloguniform", 0.9, 0.999]), ("ql", ["qloguniform", 0.5, 8.0, 0.5]),
              ("qli", ["qlograndint", 2, 16, 2])],
    # size 200: large enough that rejection sampling can run out of retries before the space is used up
    "fin200": [("a", ["randint", 0, 9]), ("b", ["randint", 0, 9]), ("c", ["choice", ["x", "y"]]), ("k", ["const", 7])],
    # log-scaled floats whose bounds do not survive exp(log(.)) exactly; initial points exactly on the bounds
    "logb": [("lu", ["loguniform", 1e-5, 0.1]), ("rl", ["reverseloguniform", 0.1, 0.7]), ("i", ["randint", 0, 1])],
    # domains with negative values (multiplicative perturbations move a negative value the other way)
    "neg": [("u", ["uniform", -1.0, 1.0]), ("i", ["randint", -10, -1])],
    # grid with a float and a log float (num_samples given), full int range
    "gridf": [("u", ["uniform", 0.0, 3.0]), ("lu", ["loguniform", 0.01, 1.0]), ("i", ["randint", 1, 3])],
}
GRID_NUM_SAMPLES = {"gridf": {"u": 3, "lu": 2}}

# points_to_evaluate variants per space (name -> list or None). Values are legal members, in the promised type unless
# the variant name says otherwise.
P2E = {
    "fin6": {
        "none": None, "empty": [], "one-empty": [{}],
        "partial": [{"c": "c"}, {"i": 1}],
        "dups": [{"c": "b", "i": 1}, {"c": "b", "i": 1}, {"i": 0}, {"c": "c"}, {"c": "b", "i": 1}, {"c": "c"}],
        "full": [{"c": "c", "i": 1}, {"c": "a", "i": 1}, {"c": "b", "i": 0}, {"c": "c", "i": 0}, {"c": "a", "i": 0},
                 {"c": "b", "i": 1}],
        # legal members given in another numeric type (an int hyperparameter read back from JSON / a data frame as float):
        # the documented cast applies, and the cast value is what must be excluded later on
        "castable": [{"c": "b", "i": 1.0}, {"i": 0.0}, {"c": "b", "i": 1}],
    },
    "fin9": {
        "none": None, "empty": [],
        "partial": [{"o": 5}, {"f": 0.5}],
        "dups": [{"o": 1}, {"o": 1, "f": 0.3}, {"o": 1}, {"f": 0.1}],
        "offgrid": [{"f": 0.44}, {"f": 0.12, "o": 5}],
    },
    "fin4": {
        "none": None, "empty": [], "partial": [{"ci": 1}], "dups": [{"ci": 1, "fi": 4}, {"ci": 1, "fi": 4}, {"fi": 0}],
        "full": [{"ci": 1, "fi": 4}, {"ci": 3, "fi": 4}, {"ci": 3, "fi": 0}, {"ci": 1, "fi": 0}],
        "castable": [{"ci": 1, "fi": 4.0}, {"fi": 0.0, "ci": 3}],
    },
    "degen": {"none": None, "empty": [], "dups": [{}, {"r": 3}, {"c1": "x", "u": 0.5}]},
    "inf": {
        "none": None, "empty": [],
        "partial": [{"u": 0.25}, {"li": 3}, {"u": 1, "li": 64}],
        "dups": [{"u": 0.75, "li": 2}, {"u": 0.75, "li": 2}, {}, {}],
    },
    "mix": {"none": None, "partial": [{"lu": 0.5}, {"lf": 8, "oe": "l"}, {"fi": 0}], "empty": []},
    "finlog": {"none": None, "empty": [], "partial": [{"lo": 64}, {"li": 2, "lf": 8.0}]},
    "quant": {"none": None, "empty": [], "partial": [{"qu": 0.25}, {"qi": 8, "qli": 4}]},
    "logb": {"none": None, "onbound": [{"lu": 0.1, "rl": 0.1, "i": 0}, {"lu": 1e-5, "rl": 0.7, "i": 1}, {"lu": 0.1}]},
    "neg": {"none": None, "nearbound": [{"u": -0.95, "i": -10}, {"u": 0.95, "i": -1}, {"u": -1.0, "i": -9}]},
    "fin200": {"none": None, "partial": [{"a": 3}, {"c": "y", "b": 0}, {"a": 3}], "castable": [{"a": 3.0, "b": 7.0}, {"b": 0.0}]},
    "gridf": {"none": None, "empty": [], "ongrid": [{"u": 0.5, "lu": 0.1 ** 1.5, "i": 3}, {"u": 2.5}],
              "partial": [{"i": 1}, {"u": 0.1}]},
}


def build_space(name):
    """-> config_space dict made with the public constructors of syne_tune.config_space"""
    from syne_tune import config_space as cs
    out = {}
    for key, spec in SPACES[name]:
        kind = spec[0]
        if kind == "const":
            out[key] = spec[1]
        elif kind == "choice":
            out[key] = cs.choice(list(spec[1]))
        elif kind == "ordinal":
            out[key] = cs.ordinal(list(spec[1]), kind=spec[2])
        elif kind == "logordinal":
            out[key] = cs.logordinal(list(spec[1]))
        elif kind in ("finrange", "logfinrange"):
            out[key] = getattr(cs, kind)(spec[1], spec[2], spec[3], cast_int=spec[4])
        else:
            out[key] = getattr(cs, kind)(*spec[1:])
    return out


# ------------------------------------------------------------------------------------------------ per domain

def close(a, b):
    if isinstance(a, str) or isinstance(b, str):
        return a == b
    return abs(a - b) <= ATOL + RTOL * max(abs(a), abs(b))


def value_type(spec):
    kind = spec[0]
    if kind in FLOAT_KINDS:
        return float
    if kind in INT_KINDS:
        return int
    if kind in ("finrange", "logfinrange"):
        return int if spec[4] else float
    if kind in ("choice", "ordinal", "logordinal"):
        return type(spec[1][0])
    raise ValueError(spec)


def is_log(spec):
    return spec[0] in LOG_KINDS or (spec[0] == "ordinal" and spec[2] == "nn-log")


def _fin_grid(spec):
    """un-rounded points of a (log)finrange"""
    _, lo, hi, n, _ = spec
    if n == 1:
        return [float(lo)]
    if spec[0] == "finrange":
        return [lo + i * (hi - lo) / (n - 1) for i in range(n)]
    a, b = math.log(lo), math.log(hi)
    return [math.exp(a + i * (b - a) / (n - 1)) for i in range(n)]


def finite_values(spec):
    """list of all members if the domain is finite, else None"""
    kind = spec[0]
    if kind in ("choice", "ordinal", "logordinal"):
        out = []
        for x in spec[1]:
            if x not in out:
                out.append(x)
        return out
    if kind in INT_KINDS:
        return list(range(int(spec[1]), int(spec[2]) + 1))
    if kind in ("finrange", "logfinrange"):
        pts = _fin_grid(spec)
        if spec[4]:
            out = []
            for p in pts:
                v = int(round(p))
                if v not in out:
                    out.append(v)
            return out
        return pts
    if kind in FLOAT_KINDS:
        return [float(spec[1])] if spec[1] == spec[2] else None
    raise ValueError(spec)


def member(spec, v):
    """is v (already of the right type) inside the domain described by the constructor arguments"""
    vals = finite_values(spec)
    if vals is not None:
        return any(close(v, x) for x in vals)
    return spec[1] <= v <= spec[2]


def _nearest(cands, key_of, target):
    d = [abs(key_of(c) - target) for c in cands]
    m = min(d)
    return [c for c, x in zip(cands, d) if x <= m + 1e-9 * max(1.0, abs(target))]


def midpoint_accept(spec):
    """values the documented mid-point rule allows for a missing entry (ties and under-specified cases: all of them)"""
    kind = spec[0]
    if kind == "choice":
        return [spec[1][0]]
    if kind == "ordinal" and spec[2] == "equal":
        cats = spec[1]
        out = [cats[len(cats) // 2]]          # implementation comment: middle entry
        if cats[0] not in out:
            out.append(cats[0])               # docstring: 'for Categorical the first entry'
        return out
    if kind in ("ordinal", "logordinal"):
        cats = spec[1]
        lo, hi = float(cats[0]), float(cats[-1])
        if is_log(spec):
            return _nearest(cats, lambda c: math.log(float(c)), 0.5 * (math.log(lo) + math.log(hi)))
        return _nearest(cats, float, 0.5 * (lo + hi))
    lo, hi = float(spec[1]), float(spec[2])
    arith = 0.5 * (lo + hi)
    geo = math.exp(0.5 * (math.log(lo) + math.log(hi))) if lo > 0 else None
    if kind in ("uniform", "reverseloguniform", "quniform"):
        return [arith]
    if kind == "loguniform":
        return [geo]
    if kind == "qloguniform":
        return [arith, geo]
    if kind in INT_KINDS:
        targets = [arith] if kind in ("randint", "qrandint") else ([geo] if kind == "lograndint" else [arith, geo])
        out = []
        for t in targets:
            for v in _nearest([math.floor(t), math.ceil(t)], float, t):
                if int(v) not in out:
                    out.append(int(v))
        return out
    if kind in ("finrange", "logfinrange"):
        pts = _fin_grid(spec)
        if kind == "finrange":
            near = _nearest(pts, float, arith)
        else:
            near = _nearest(pts, math.log, math.log(geo))
        if spec[4]:
            out = []
            for p in near:
                if int(round(p)) not in out:
                    out.append(int(round(p)))
            return out
        return near
    raise ValueError(spec)


def cast_given(spec, v):
    """value the scheduler must use for an entry the user supplied (documented: cast; finite ranges -> closest)"""
    kind = spec[0]
    if kind in FLOAT_KINDS:
        return [float(v)]
    if kind in INT_KINDS:
        return [int(round(v))]
    if kind in ("finrange", "logfinrange"):
        pts = _fin_grid(spec)
        near = _nearest(pts, math.log if kind == "logfinrange" else float,
                        math.log(v) if kind == "logfinrange" else float(v))
        return [int(round(p)) for p in near] if spec[4] else near
    return [v]


# ------------------------------------------------------------------------------------------------ per space

def hp_items(space):
    return [(k, s) for k, s in space if s[0] != "const"]


def space_size(space):
    n = 1
    for _, s in hp_items(space):
        vals = finite_values(s)
        if vals is None:
            return None
        n *= len(vals)
    return n


def all_configs(space):
    items = hp_items(space)
    vals = [finite_values(s) for _, s in items]
    return [dict(zip([k for k, _ in items], combo)) for combo in itertools.product(*vals)]


def impute(P, space):
    """expected initial configurations: list of {key: [acceptable values]} in order, duplicates removed.
    Raises if the acceptable sets make de-duplication ambiguous (then the catalogue entry must be changed)."""
    if P is None:
        P = [{}]
    out = []
    for p in P:
        e = {}
        for k, s in hp_items(space):
            e[k] = cast_given(s, p[k]) if k in p else midpoint_accept(s)
        dup = False
        for o in out:
            sure = all(len(e[k]) == len(o[k]) and all(close(a, b) for a, b in zip(e[k], o[k])) for k in e)
            maybe = all(any(close(a, b) for a in e[k] for b in o[k]) for k in e)
            if sure:
                dup = True
                break
            if maybe:
                raise ValueError(f"ambiguous duplicate in points_to_evaluate catalogue: {p} vs {o}")
        if not dup:
            out.append(e)
    return out


def matches(expected, cfg):
    """first key at which cfg is not one of the acceptable values of an expected entry, or None"""
    for k, acc in expected.items():
        if k not in cfg or not any(type(cfg[k]) is type(a) and close(cfg[k], a) for a in acc):
            return k
    return None


def same_config(space, a, b):
    """equality of two suggested configurations on the hyperparameter keys (exact for str/int, RTOL for float)"""
    return all(close(a[k], b[k]) for k, _ in hp_items(space))


def grid_points(space, num_samples):
    """the grid of GridSearcher as documented: all values of finite domains, all integers of an integer range of at
    most 5 values, and for floats ``n`` equally spaced cell centres (in log for log domains)"""
    items = hp_items(space)
    vals = []
    for k, s in items:
        fv = finite_values(s)
        if fv is not None:
            if s[0] in INT_KINDS and len(fv) > 5:
                raise ValueError("integer ranges with more than 5 values are not in the grid catalogue")
            vals.append(fv)
            continue
        n = num_samples.get(k, 5)
        lo, hi = float(s[1]), float(s[2])
        if s[0] == "uniform":
            vals.append([lo + (hi - lo) * (i + 0.5) / n for i in range(n)])
        elif s[0] == "loguniform":
            a, b = math.log(lo), math.log(hi)
            vals.append([math.exp(a + (b - a) * (i + 0.5) / n) for i in range(n)])
        else:
            raise ValueError(s)
    return [dict(zip([k for k, _ in items], combo)) for combo in itertools.product(*vals)]
