"""Regenerates MANIFEST.json from the table below (python -m mc.manifest_gen)."""
import json
from pathlib import Path

ROOT = Path(__file__).resolve().parent.parent

CHECKS = {
    "C03": dict(engine="schedx", category="model_checking", design_ref="§2 C03",
                text="Explicit-state BFS over every interleaving of suggest/report/complete events of the real "
                     "HyperbandScheduler (stopping, rush_stopping) for enumerated rung systems, bracket layouts, modes and "
                     "metric-rank permutations, against a lock-step reference of the documented quantile rule. Plus: rung levels of the real scheduler against the documented arithmetic on a finite lattice of (grace period, reduction factor incl. non-integer, increment, max_t); a re-report event (a job reports a level twice) and six-trial RUSH worlds.",
                note="Bounded: W<=3 workers, T<=4 trials, listed rung systems; metric values from a fixed table alphabet; "
                     "near ties accepted both ways as the property states.",
                technique="explicit-state model checking of the implementation (BFS over event histories, digest dedup, reference-model oracle)"),
    "C04": dict(engine="schedx", category="model_checking", design_ref="§2 C04",
                text="Explicit-state BFS over every interleaving of suggest/report/complete events of the real "
                     "HyperbandScheduler (promotion, pasha, cost_promotion, rush_promotion) against a lock-step reference of the "
                     "promotion rule (top-down scan, quantile / cumulative-cost eligibility, best unpromoted, exact milestone). Plus: every table of a family of criss-crossing learning curves on the long single-worker history (levels 1,3,9) for PASHA and plain promotion; front-/back-loaded cost curves for cost-aware promotion.",
                note="Bounded: W<=3, T<=4, listed rung systems, brackets<=2; PASHA cap read from the implementation and checked for "
                     "monotonicity only; RUSH thresholds with >0 candidates not modelled.",
                technique="explicit-state model checking of the implementation (BFS over event histories, digest dedup, reference-model oracle)"),
    "C05": dict(engine="schedx", category="model_checking", design_ref="§2 C05",
                text="Explicit-state BFS over every interleaving of suggest/report/fail events of the real "
                     "SynchronousHyperbandScheduler for geometric and custom bracket systems, against a lock-step reference "
                     "bracket model (slot filling, rung completion incl. failed jobs, top-n promotion, never-blocking suggest, "
                     "cycling offsets).",
                note="Bounded: W<=3, T<=7 trials, <=2 failures, listed bracket systems; order among promoted trials of one rung free. Function-level exhaustive block: get_top_list on every rung of <=5 (thorough 6) entries x failed subsets x survivor rankings x next-rung size x mode.",
                technique="explicit-state model checking of the implementation (BFS over event histories, digest dedup, reference-model oracle)"),
    "C01": dict(engine="tunerx", category="model_checking", design_ref="§2 C01",
                text="Stateless deviation-bounded exploration of the real Tuner.run over a scripted backend that inherits the real "
                     "polling logic: all executions with <=k non-default environment answers around 8 default profiles, for 14 "
                     "scheduler kinds x n_workers, checked by a life-cycle / occupancy / call-protocol monitor on the unified "
                     "event log; the same TunerProtocol automaton is the driver grammar of the scheduler-level engine.",
                note="Bounded: k<=1 (quick) / k<=2 (thorough) deviations, W<=3, 4-5 trials, 4 levels; process layer of LocalBackend "
                     "replaced by scripted workers with immediate kills; simulator-backend configurations are covered under C10.",
                technique="stateless model checking of the implementation (deviation-bounded enumeration of environment answers, replayed choice prefixes)"),
    "C02": dict(engine="tunerx", category="model_checking", design_ref="§2 C02",
                text="Stateless deviation-bounded exploration of the real Tuner.run + real fetch_status_results over scripted workers: "
                     "every batching of output per poll, completion lag, output written between a pause/stop decision and the kill, "
                     "merge order; schedulers = a decision-script scheduler replaying every word over {CONTINUE,PAUSE,STOP} up to the "
                     "bound, and the shipped stopping / pause-resume schedulers; oracle = ground-truth emission list per run vs "
                     "on_trial_result calls and results-log rows. Plus a BFS over the backend API driven directly (start, poll of any subset of paused plus all live trials, pause, resume, stop) on the real TrialBackend.fetch_status_results, and, through the real LocalBackend file layer, jobs that finish between the backend's reads of process status and log.",
                note="Bounded: k<=1 (quick) / k<=2 (thorough), W=2, 3-4 trials, 3-4 levels, decision words <=3 (quick) / <=4 (thorough); "
                     "file layer of LocalBackend replaced by in-memory append-only output; simulator delivery is checked under C10.",
                technique="stateless model checking of the implementation (deviation-bounded enumeration of environment answers, ground-truth differential oracle)"),
    "C20": dict(engine="tunerx", category="model_checking", design_ref="§2 C20",
                text="Stateless deviation-bounded exploration of the real Tuner.run with delete_checkpoints on/off over an in-memory "
                     "checkpoint store for all pause-resume schedulers (promotion, PASHA, cost, synchronous HB with its removal callback, "
                     "DEHB, PBT, speculative early removal); oracle on every delete_checkpoint / resume_trial / copy_checkpoint.",
                note="Bounded: k<=1 (quick) / k<=2 (thorough), W in {2,3}, 5-6 trials, 4 levels; shutil-level behaviour of LocalBackend not exercised.",
                technique="stateless model checking of the implementation (deviation-bounded enumeration of poll batchings and merge orders)"),
    "C12": dict(engine="tunerx", category="model_checking", design_ref="§2 C12",
                text="Stateless deviation-bounded exploration of the real Tuner.run for every StoppingCriterion field and pairs, "
                     "schedulers, n_workers, wait_trial_completion, (a)synchronous scheduling, failures vs max_failures and scheduler "
                     "exceptions injected at every call index; oracle: independent reading of the criterion at every loop end, no "
                     "start afterwards, exit/drain right then, nothing alive after run(), cleanup calls, counters = ground truth. "
                     "Simulator family: every subset of <=2 non-wall-clock criterion fields, alone and with a wall-clock limit that never / "
                     "first holds, on the real simulator backend + SimulatorCallback (criterion rewritten onto simulated time), the user's "
                     "criterion read independently at every loop end.",
                note="Bounded: k<=1 (quick) / k<=2 (thorough), W<=3, 3 levels; wall-clock is a logical clock ticking per iteration; "
                     "scripted workers (the property excludes the simulator for 'left running'); simulator family: one execution per "
                     "configuration (time keeper owned, no environment answers left), 3 schedulers, W<=2.",
                technique="stateless model checking of the implementation (deviation-bounded enumeration of environment answers and fault-injection points)"),
    "C10": dict(engine="tunerx", category="model_checking", design_ref="§2 C10",
                text="Stateless deviation-bounded exploration of the real Tuner.run + UserBlackboxBackend + SimulatorCallback over "
                     "small BlackboxTabular tables with the real time spent outside the backend as an explorer choice at every backend "
                     "call; oracle: every delivered result of a run equals, in order, what the table prescribes for configuration, the "
                     "trial's seed and resume point, with time stamp = start of run + delays + repaired elapsed time; monotone clock; "
                     "sleep charged once; nothing of a previous run delivered.",
                note="Bounded: k<=1 (quick) / k<=2 (thorough) non-zero outside-time answers from {0.3, 7.0}s, 4-6 table configurations, "
                     "1-2 seeds, 3-4 fidelities, W<=2, 4 trials; start time of a run is observed from the backend clock, not recomputed.",
                technique="stateless model checking of the implementation (deviation-bounded enumeration of outside-time answers, table-replay oracle)"),
    "C13": dict(engine="schedx+tunerx", category="fault_enumeration", design_ref="§2 C13",
                text="Fault enumeration at two levels: (A) BFS over scheduler event histories with fail(t) enabled at every point of every "
                     "running trial's life (budget F) on the C03/C04/C05 worlds and on PBT/DEHB/median/MOASHA/RUSH/cost/FIFO/GP-searcher "
                     "schedulers; (B) the real Tuner.run with <=2 crashes/external stops placed at every poll x max_failures.",
                note="Bounded: F<=1 (quick) / F<=2 (thorough) at scheduler level, 2 faults at tuner level, W<=3, T<=4; PASHA with several "
                     "brackets excluded here (known finding under C04).",
                technique="exhaustive fault-placement enumeration inside explicit-state (BFS) and stateless (deviation-bounded) model checking of the implementation"),
    "C17": dict(engine="tunerx", category="model_checking", design_ref="§2 C17",
                text="Stateless deviation-bounded exploration of the real Tuner.run + StoreResultsCallback for scheduler x mode x metric "
                     "value alphabet x store interval: rows vs delivered results, CSV round trip, best configuration (tuner and loaded "
                     "experiment), per-trial and overall statistics recomputed from what the backend handed to the loop. The periodic-store clock (whole seconds of datetime.now in RegularCallback) is owned by the harness; backend-stamped tuner times; derived totals (user time, cost) against per-trial maxima.",
                note="Bounded: k<=1 (quick) / k<=2 (thorough), W<=2, 4 trials, 3 levels, a 12-value alphabet for extra metrics.",
                technique="stateless model checking of the implementation (deviation-bounded enumeration of environment answers, recomputation oracle)"),
    "C07": dict(engine="enumx", category="exploration", design_ref="§2 C07",
                text="Bounded-exhaustive input enumeration: every domain constructor x a parameter lattice (bounds incl. lower==upper, "
                     "sizes, category lists, q, cast_int) x every point of finite input lattices (stub-RNG answer alphabet, all members, "
                     "unit-cube lattice incl. corners and rounding-cell boundaries, active sub-ranges, fixed last values), plus ordered "
                     "pairs/triples of representative domains, against a membership oracle written from the constructor arguments.",
                note="Input-space enumeration, not a protocol state graph, hence 'exploration'. Decided on the lattice only: bounds <= 2**40, "
                     "<= 6 categories, sizes <= 50; 'relative 1e-7' w.r.t. the value for log domains, w.r.t. max(|v|,|lo|,|hi|) otherwise.",
                technique="bounded-exhaustive enumeration of a finite input lattice against an independent reference (no sampling)"),
    "C14": dict(engine="schedx", category="model_checking", design_ref="§2 C14",
                text="Explicit-state BFS over suggest/report/fail histories of the real Hyperband (stopping, promotion) and synchronous "
                     "Hyperband schedulers with GP-based searchers (random phase): invariant on the searcher's tuning-job state after every "
                     "event (observed levels = policy-selected first reports with the reported values; pending entries only for running "
                     "trials at unobserved levels).",
                note="Bounded: W=2, T<=3, listed rung systems, F<=1, state cap per configuration in the quick tier (reported in evidence); "
                     "no surrogate fit (num_init_random huge) so only data bookkeeping is judged; DyHPO not covered.",
                technique="explicit-state model checking of the implementation (BFS over event histories, state invariant)"),
    "C15": dict(engine="schedx+tunerx", category="model_checking", design_ref="§2 C15",
                text="Twin exploration: every event history (BFS, dedup on the pair of states) of the stopping/promotion/synchronous "
                     "Hyperband worlds and of PBT, DEHB, median rule, MOASHA, regularised evolution, FIFO, RUSH and cost-aware "
                     "schedulers is executed on (mode min, f) and (mode max, -f) and every suggestion and decision compared; Tuner-level "
                     "twins compare scheduler-call traces, status counters and the reported best configuration. Plus: table enumeration (criss-crossing curves) on the long single-worker history for PASHA / promotion, PBT populations 4 and 6, MOASHA tuner-level twins with the best configuration per metric.",
                note="Bounded as C03-C05 (W<=3, T<=5, listed rung/bracket systems); near-tie branches pruned and counted as the property allows.",
                technique="explicit-state model checking of a product (twin) system: BFS over joint event histories with an equality oracle"),
    "C11": dict(engine="schedx", category="model_checking", design_ref="§2 C11",
                text="Seeded twins: every event history (BFS, dedup on the joint state) on two schedulers built with equal arguments, where "
                     "before every call to the second both global generators are re-seeded and consumed and an independent third scheduler "
                     "object makes a call; outputs must be identical (bracket sampling left to the scheduler's own generator here). The "
                     "explorations' observation traces and the result tables of simulated experiments are recomputed in two fresh processes "
                     "with different PYTHONHASHSEED and compared. Twins and the unrelated instance are built from the same argument objects, in the order A / unrelated / B; a first-instances scenario runs at the start of each fresh child process.",
                note="Bounded as C03-C05 plus PBT/DEHB/median/REA/FIFO/GP(random phase); MOASHA takes no random_seed (outside the quantifier); "
                     "GP searchers with a fitted surrogate only as fresh-process twins.",
                technique="explicit-state model checking of a product (twin) system under adversarial global-RNG perturbation, plus fresh-process differential replay"),
    "C09": dict(engine="enumx", category="exploration", design_ref="§2 C09",
                text="Bounded-exhaustive enumeration of a finite lattice of GP model configurations, data sets, parameter points, acquisition "
                     "heads and inputs; every gradient coordinate returned by the scipy fitting objective and by compute_acq_with_gradient "
                     "is compared with a Richardson-extrapolated central difference of the value returned alone, plus value consistency "
                     "and mpmath closed forms for EI/EIpu/CEI.",
                note="Decided on the lattice only (n<=4(+5), d<=2, Matern52+-ARD, mean zero/scalar, identity/Box-Cox, two encodings, fantasies "
                     "{1,3}, 7 heads, inputs {0.2,0.5,0.8}^d). Tolerance 1e-5*max(scale,|g|) + 4x the Richardson error estimate; unresolved "
                     "difference quotients (~1%) and jitter>0 points are counted separately; no MCMC.",
                technique="bounded-exhaustive enumeration of a finite lattice with a numerical-differentiation oracle (no sampling)"),
    "C18": dict(engine="enumx", category="exploration", design_ref="§2 C18",
                text="Bounded-exhaustive: every report/noise stream over finite alphabets (17 payloads, 12 noise items, 17 reject/either "
                     "items, 27 wall-clock patterns; <=3 reports, <=4 over 4 payloads; every placement of noise before/between/after, same "
                     "line where unterminated) is pushed through the real Reporter -> file -> LocalBackend.stdout -> retrieve path and "
                     "compared with an independent JSON-normal form. Plus a two-reads family: the same backend object reads the append-only log after every cut inside / between lines and again when complete.",
                note="Input-space enumeration, not a protocol state graph. Says nothing about payloads, noise or clocks outside the alphabets, "
                     "about half-written lines seen by a poll, or about other writers on the same stream. Non-decreasing time stamps are "
                     "demanded only under a non-decreasing wall clock.",
                technique="bounded-exhaustive enumeration (full cartesian products, no sampling) of report x noise-placement x clock-pattern cases against a reference normal form"),
    "C06": dict(engine="schedx", category="model_checking", design_ref="§2 C06",
                text="Explicit-state BFS with digest dedup over all histories of {suggest, report, complete, fail, leave-pending} of the real "
                     "schedulers (FIFO x random/grid/GP-BO, Hyperband stopping/promotion x random/GP multi-fidelity/HyperTune, DEHB, PBT) for "
                     "spaces built from every public domain constructor x points_to_evaluate variants; a reference oracle (membership, value "
                     "type, mid-point imputation, de-duplication, grid - recomputed from constructor arguments) judges every suggestion.",
                note="Bounded: <=2 workers, <=2 failures; finite spaces of size 1/4/6/9/18 until the searcher answered None twice, other spaces to "
                     "depth 9-14, real BO path to depth 8-12 under a state cap; random draws are those of 2-3 fixed seeds per configuration; "
                     "quantisation of q* constructors belongs to C07.",
                technique="explicit-state model checking of the implementation (BFS over event histories, digest dedup, reference oracle on every suggestion)"),
    "C19": dict(engine="schedx+enumx", category="model_checking", design_ref="§2 C19",
                text="BFS with digest dedup over all event histories {suggest(bracket), report(t), complete(t)} of the real MOASHA within the "
                     "bounds, in lock-step with a reference of the documented rung rule; plus bounded-exhaustive input enumeration of "
                     "pareto_efficient / nondominated_sort / MOPriority against brute-force dominance with scripted RNG answers.",
                note="Bounds: T<=6, W<=3, <=2 brackets, <=3 objectives, max_t<=8; grid {0,1,2}^d with d<=3, n<=5 (d<=5 with smaller grids). The "
                     "rank one place above the top-1/rf cut may go either way (documents leave it open); any order within a Pareto layer is "
                     "accepted; np.random.choice owned by the harness.",
                technique="explicit-state model checking of the implementation (history-replay BFS, lock-step reference) combined with bounded-exhaustive input enumeration"),
    "C08": dict(engine="enumx", category="exploration", design_ref="§2 C08",
                text="Bounded-exhaustive enumeration of a finite lattice of (kernel configuration, noise, mean, training multiset, target / "
                     "fantasy matrix) cases and of all operation sequences of length <=3 over IncrementalUpdateGPPosteriorState, each "
                     "compared with an independent dense numpy/mpmath (50-digit) GP reference under a-priori conditioning-scaled rounding bounds.",
                note="Decides the identities on the lattice only (n in {1,2,3,5}, d in {1,2,3}, grid {0,.25,1}^d with 1e-7 near-duplicates, "
                     "parameters at lower/init/upper-ish levels plus true box corners); numerically singular cases are counted and excluded; "
                     "documented safeguards (distance jitter, warp rescale, 1e-5 joint-sample jitter, AddJitterOp ladder) are part of the reference.",
                technique="bounded-exhaustive enumeration of a finite lattice and of operation sequences against an independent dense reference (no sampling)"),
    "C16": dict(engine="schedx", category="model_checking", design_ref="§2 C16",
                text="Crash-point exploration with restored twins: every state of a digest-deduplicated BFS over event histories "
                     "(suggest, report, complete, fail) of a real scheduler, plus every prefix of fixed-policy spine histories, is a "
                     "crash point; there the scheduler is restored by a dill round trip and, for random / grid / GP single- and "
                     "multi-fidelity searchers, by get_state + clone_from_state on a freshly constructed searcher; original and "
                     "restored object are driven by every continuation of length <= h and by fixed-policy continuations until trial "
                     "budget or configuration space is exhausted, and must give identical suggestions, decisions and exceptions.",
                note="Bounded: W<=3, T<=6, h=3 (quick) / 4 (thorough), 2 for GP searchers with a fitted surrogate; crash points "
                     "per configuration capped (reported); only the scheduler is dill-pickled, not the whole Tuner; float "
                     "hyperparameters of suggestions compared to 1e-7 relative (GP parameter round trip is exact to an ulp), rest exact.",
                technique="explicit-state model checking over crash points: BFS over event histories, restored twin vs uninterrupted twin on every bounded continuation"),
}

NOT_YET = {}


def main():
    props = [json.loads(l) for l in open(ROOT / "properties.jsonl")]
    checks = []
    na = []
    for p in props:
        pid = p["id"]
        if pid in CHECKS:
            c = CHECKS[pid]
            checks.append({
                "property_id": pid,
                "quick_cmd": f"./check {pid} --tier quick",
                "thorough_cmd": f"./check {pid} --tier thorough",
                "evidence_file": f"evidence/{pid}.json",
                "replay_cmd_template": f"./check {pid} --replay {{path}}",
                "engine": c["engine"],
                "level_claimed": {"category": c["category"], "text": c["text"], "design_ref": c["design_ref"]},
                "level_note": c["note"],
                "technique": c["technique"],
            })
        else:
            na.append({"property_id": pid, "reason": NOT_YET.get(pid, "check not built yet (work in progress; see DESIGN.md §5 build order)")})
    man = {
        "version": 1,
        "setup_cmd": "true",
        "hooks": {"guard": "SYNE_TUNE_VERIF", "enable": "no source hooks: all seams are public attributes / subclasses set by the harness",
                  "baseline_off_cmd": "cd /repo && /venv/bin/python -m pytest -ra -q -p no:cacheprovider --timeout=900 --continue-on-collection-errors",
                  "source_commits": [], "add_only": True},
        "engines": [
            {"name": "schedx", "path": "mc/schedx.py", "serves_properties": sorted(k for k, v in CHECKS.items() if v["engine"] == "schedx"),
             "kind_free_text": "explicit-state BFS over the real scheduler API, state = event history replayed on a fresh object, canonical digest dedup"},
            {"name": "tunerx", "path": "mc/tunerx.py", "serves_properties": sorted(k for k, v in CHECKS.items() if v["engine"] == "tunerx"),
             "kind_free_text": "stateless deviation-bounded exploration of the real Tuner.run over a scripted backend / simulator"},
            {"name": "enumx", "path": "mc/enumx.py", "serves_properties": sorted(k for k, v in CHECKS.items() if v["engine"] == "enumx"),
             "kind_free_text": "bounded-exhaustive input / operation-sequence enumeration against a reference"},
        ],
        "checks": checks,
        "not_applicable": na,
        "notes": "See DESIGN.md. Known findings: known_findings.json. Seeded mutations: seeded/.",
    }
    (ROOT / "MANIFEST.json").write_text(json.dumps(man, indent=1) + "\n")
    try:
        import jsonschema
        jsonschema.validate(man, json.loads(open("/root/.vp/MANIFEST.schema.json").read()))
        print("MANIFEST ok:", len(checks), "checks,", len(na), "not_applicable")
    except ImportError:
        pass


if __name__ == "__main__":
    main()
