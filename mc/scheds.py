"""Factory for the real schedulers used by Engine B (and some Engine A properties)."""
from . import env

KINDS = ["fifo-random", "fifo-grid", "fifo-bo", "hb-stopping", "hb-promotion", "hb-pasha", "hb-cost", "hb-rush-stop",
         "hb-rush-prom", "shb", "dehb", "pbt", "moasha", "median", "rea"]


def is_pause_resume(kind):
    return kind in ("hb-promotion", "hb-pasha", "hb-cost", "hb-rush-prom", "shb", "dehb", "pbt")


# Argument sharing (C11): "two schedulers created with the same arguments" includes the very same argument *objects*
# (one search_options dict, one restrict_configurations list used for several schedulers). While sharing is on, shared()
# hands out one object per (name, value) so that a scheduler that keeps or mutates a caller-owned argument shows up as
# interference between instances.
_SHARE = {"on": False, "objs": {}}


def share(on):
    _SHARE["on"] = on
    _SHARE["objs"] = {}


def shared(name, value):
    if not _SHARE["on"]:
        return value
    return _SHARE["objs"].setdefault((name, repr(value)), value)


def make(kind, mode="min", seed=0, R=4, mra=True, space=None, metric="m", allow_duplicates=False, set_tk=True, **kw):
    """returns (scheduler, info) ; info: dict(mra=name|None, metric(s), resource_attr)"""
    from syne_tune.config_space import uniform, choice, randint
    from syne_tune.optimizer.schedulers import FIFOScheduler, HyperbandScheduler, PopulationBasedTraining, MedianStoppingRule
    so = {"debug_log": False}
    if allow_duplicates:
        so["allow_duplicates"] = True
    if kw.get("restrict"):
        n = kw.pop("restrict")
        rc = [{"a": round(0.05 + 0.09 * i, 3), "b": (3 * i) % 10} for i in range(n)]
        so["restrict_configurations"] = shared("rc", rc)
        # restrict_p2e: initial points that are members of the list (they are taken out of it before the first draw)
        kw.setdefault("points_to_evaluate", [dict(rc[i]) for i in kw.pop("restrict_p2e", [])])
    so = shared("so", so)
    info = dict(metric=metric, resource_attr="epoch", mra=None, metrics=None)
    base_space = dict(space) if space is not None else {"a": uniform(0, 1), "b": randint(0, 9)}
    if kw.pop("quant_space", False):
        # quantized domains wrap an inner sampler (one more hop for the seeded generator)
        from syne_tune.config_space import quniform, qrandint, qloguniform
        base_space = {"a": quniform(0, 1, 0.05), "b": qrandint(0, 8, 2), "c": qloguniform(0.01, 1.0, 0.01)}
    if kw.get("int_space"):
        base_space = {"a": randint(0, kw.pop("int_space") - 1)}   # a small finite space (JSON-able configuration key)
    if kind.startswith("fifo"):
        searcher = {"fifo-random": "random", "fifo-grid": "grid", "fifo-bo": "bayesopt"}[kind]
        if kind == "fifo-grid":
            base_space = dict(space) if space is not None else {"a": choice([0.1, 0.5, 0.9]), "b": choice([1, 2])}
            gs = kw.pop("grid_space", None)
            if gs == "num":          # numerical grid: 5 x 5 points by default
                base_space = {"a": uniform(0, 1), "b": randint(0, 9)}
            elif gs == "num-small":  # same names, an integer range with fewer values than the default grid size
                base_space = {"a": uniform(0, 1), "b": randint(0, 2)}
        if kind == "fifo-bo":
            so.update(num_init_random=10 ** 6)
        s = FIFOScheduler(base_space, searcher=searcher, metric=metric, mode=mode, random_seed=seed, search_options=so,
                          **kw)
    elif kind.startswith("hb-"):
        typ = {"hb-stopping": "stopping", "hb-promotion": "promotion", "hb-pasha": "pasha", "hb-cost": "cost_promotion",
               "hb-rush-stop": "rush_stopping", "hb-rush-prom": "rush_promotion"}[kind]
        args = dict(searcher="random", type=typ, metric=metric, mode=mode, resource_attr="epoch", grace_period=1,
                    reduction_factor=2, random_seed=seed, search_options=so)
        if mra:
            base_space["epochs"] = R
            args["max_resource_attr"] = "epochs"
            info["mra"] = "epochs"
        else:
            args["max_t"] = R
        if typ == "cost_promotion":
            args["cost_attr"] = "cost"
        if typ.startswith("rush"):
            args["rung_system_kwargs"] = {"num_threshold_candidates": kw.pop("rush_k", 1)}
            args["points_to_evaluate"] = [{"a": 0.3, "b": 2}]
        args.update(kw)
        s = HyperbandScheduler(base_space, **args)
    elif kind == "shb":
        from syne_tune.optimizer.schedulers.synchronous import SynchronousHyperbandScheduler
        br = kw.pop("bracket_rungs", [[(3, 1), (2, 2), (1, R)], [(2, 2), (1, R)]])
        args = dict(metric=metric, mode=mode, resource_attr="epoch", searcher="random", random_seed=seed, search_options=so)
        if mra:
            base_space["epochs"] = R
            args["max_resource_attr"] = "epochs"
            info["mra"] = "epochs"
        else:
            args["max_resource_level"] = R
        args.update(kw)
        s = SynchronousHyperbandScheduler(base_space, br, **args)
    elif kind == "dehb":
        from syne_tune.optimizer.schedulers.synchronous import DifferentialEvolutionHyperbandScheduler
        br = kw.pop("rungs_first_bracket", [(3, 1), (2, 2), (1, R)])
        args = dict(metric=metric, mode=mode, resource_attr="epoch", searcher="random_encoded", random_seed=seed,
                    search_options=so)
        if mra:
            base_space["epochs"] = R
            args["max_resource_attr"] = "epochs"
            info["mra"] = "epochs"
        else:
            args["max_resource_level"] = R
        args.update(kw)
        s = DifferentialEvolutionHyperbandScheduler(base_space, rungs_first_bracket=br, **args)
    elif kind == "pbt":
        args = dict(metric=metric, mode=mode, resource_attr="epoch", population_size=kw.pop("population_size", 2),
                    perturbation_interval=kw.pop("perturbation_interval", 1), quantile_fraction=0.5,
                    resample_probability=0.25, random_seed=seed, search_options=so, max_t=R)
        args.update(kw)
        s = PopulationBasedTraining(base_space, **args)
    elif kind == "moasha":
        from syne_tune.optimizer.schedulers.multiobjective import MOASHA
        s = MOASHA(base_space, metrics=[metric, "m2"], mode=[mode, "min"], time_attr="epoch", max_t=R, grace_period=1,
                   reduction_factor=2, **kw)
        info["metrics"] = [metric, "m2"]
    elif kind == "rea":
        from syne_tune.optimizer.baselines import REA
        s = REA(base_space, metric=metric, population_size=kw.pop("population_size", 3), sample_size=kw.pop("sample_size", 2),
                random_seed=seed, mode=mode, search_options=so, **kw)
    elif kind == "median":
        inner = FIFOScheduler(base_space, searcher="random", metric=metric, mode=mode, random_seed=seed, search_options=so)
        s = MedianStoppingRule(inner, resource_attr="epoch", grace_time=1, grace_population=2, **kw)
    else:
        raise ValueError(kind)
    if set_tk and hasattr(s, "set_time_keeper"):
        s.set_time_keeper(env.ConstTimeKeeper())
    return s, info
