"""Independent dense reference for the Gaussian-process surrogate (properties C08 / C09).

Nothing here imports syne_tune.  Everything is written from the textbook definitions:

  kernel      Matern-5/2   k(x,x') = c (1 + b + b^2/3) exp(-b),  b = sqrt(5 sum_k ib_k^2 (x_k - x'_k)^2)
              (pairwise *differences*, not the -2ab+a^2+b^2 expansion the library uses)
  warping     Kumaraswamy  w(x) = 1 - (1 - r(x)^a)^b,  r(x) = (1 - 2e) x + e,  e = 1e-9 (documented in the
              Warping docstring)
  product     k((x1,x2),(y1,y2)) = k1(x1,y1) k2(x2,y2)
  exp-decay   y(x,r) = f(x) (1 - delta e^{-lam r}) + gamma e^{-lam r},  f ~ GP(mu_x, k_x),  lam ~ Gamma(alpha, beta),
              beta = alpha / mean_lam, one shared lam.  With kappa(r) = E e^{-lam r} = (beta/(r+beta))^alpha:
                 E y        = mu_x + kappa(r) (gamma - delta mu_x)
                 Cov(y,y')  = k_x (1 - delta (kappa + kappa' - delta kappa_{r+r'}))
                              + (gamma - delta mu_x)(gamma - delta mu_x') (kappa_{r+r'} - kappa kappa')
              (derived here from the raw moments; r is the last input coordinate)
  posterior   A = K + diag(noise),  alpha = A^{-1}(Y - m(X)),
              mean(x*) = m(x*) + k*^T alpha,   var(x*) = k(x*,x*) - k*^T A^{-1} k*,
              cov(X*)  = K** - K*^T A^{-1} K*,
              NLML     = 1/2 [ n log 2pi + log det A + r^T A^{-1} r ]
              via numpy.linalg.solve / slogdet, or mpmath at 50 digits.

Specs (plain JSON-able dicts) describe a model:

  kernel  {"k": "matern52", "d": 2, "inv_bw": [ib] | [ib_1..ib_d], "cov_scale": c}
          {"k": "warped",   "base": <kernel>, "warps": [{"range": [l, r], "a": [...], "b": [...]}, ...]}
          {"k": "product",  "k1": <kernel>, "k2": <kernel>}
          {"k": "scaled",   "base": <kernel>, "scale": c}            # the (kernel, covariance_scale) tuple form
          {"k": "expdecay", "kx": <kernel>, "mx": <mean>, "alpha":, "mean_lam":, "gamma":, "delta":}
  mean    {"m": "zero"} | {"m": "scalar", "value": v} | {"m": "expdecay"}   # the latter reads the expdecay kernel spec

`doc=True` (default) evaluates kernel *matrices* with the library's documented numerical safeguard
sqrt(D + NUMERICAL_JITTER); `doc=False` is the pure textbook formula.  `kernel_diag` is always the textbook
prior variance k(x,x) (which is what `KernelFunction.diagonal` is documented to return).

Public names: NUMERICAL_JITTER, WARP_EPS, MIN_POSTERIOR_VARIANCE, JOINT_SAMPLE_JITTER, MP_DPS,
kernel_dim, kernel_matrix, kernel_entry_mp, kernel_diag, mean_vector, warp_points, DenseGP, DenseGPmp, dense_gp,
matern52_textbook.
"""
import math

import numpy as np
import mpmath

NUMERICAL_JITTER = 1e-9          # constants.NUMERICAL_JITTER (documented in Matern52.forward / Warping docstring)
WARP_EPS = 1e-9
MIN_POSTERIOR_VARIANCE = 1e-12   # documented variance floor
JOINT_SAMPLE_JITTER = 1e-5       # sample_posterior_joint adds 1e-5 I before factorising
MP_DPS = 50


# ------------------------------------------------------------------ arithmetic back ends

class _NP:
    mp = False
    sqrt = staticmethod(np.sqrt)
    exp = staticmethod(np.exp)
    power = staticmethod(np.power)

    @staticmethod
    def num(x):
        return x


class _MP:
    mp = True
    sqrt = staticmethod(mpmath.sqrt)
    exp = staticmethod(mpmath.exp)

    @staticmethod
    def power(x, y):
        if x == 0:
            return mpmath.mpf(0) if y != 0 else mpmath.mpf(1)
        return mpmath.power(x, y)

    @staticmethod
    def num(x):
        return mpmath.mpf(float(x))


def matern52_textbook(sqdist_times_5):
    """(1 + b + b^2/3) exp(-b) with b = sqrt(D) — scalar / ndarray, no safeguard."""
    b = np.sqrt(sqdist_times_5)
    return (1.0 + b + sqdist_times_5 / 3.0) * np.exp(-b)


def kernel_dim(ks):
    t = ks["k"]
    if t == "matern52":
        return int(ks["d"])
    if t in ("warped", "scaled"):
        return kernel_dim(ks["base"])
    if t == "product":
        return kernel_dim(ks["k1"]) + kernel_dim(ks["k2"])
    if t == "expdecay":
        return kernel_dim(ks["kx"]) + 1
    raise ValueError(t)


# ---------------------------------------------------------------- scalar-level definitions
# x1, x2: lists (one entry per input coordinate) of back-end numbers or broadcastable ndarrays.

def _warp_coords(ks, x, F):
    x = list(x)
    for w in ks["warps"]:
        lo, hi = w["range"]
        for j, k in enumerate(range(lo, hi)):
            a, b = F.num(w["a"][j]), F.num(w["b"][j])
            r = (1 - 2 * F.num(WARP_EPS)) * x[k] + F.num(WARP_EPS)
            x[k] = 1 - F.power(1 - F.power(r, a), b)
    return x


def _kappa(r, alpha, mean_lam, F):
    beta = alpha / mean_lam
    return F.power(beta / (r + beta), alpha)


def _mean(ms, ks, x, F):
    """m(x) for coordinates x (list)."""
    t = ms["m"]
    if t == "zero":
        return 0 * x[0] + F.num(0.0)
    if t == "scalar":
        return 0 * x[0] + F.num(ms["value"])
    if t == "expdecay":
        ed = _find_expdecay(ks)
        dx = kernel_dim(ed["kx"])
        mu = _mean(ed["mx"], ed["kx"], x[:dx], F)
        kap = _kappa(x[dx], F.num(ed["alpha"]), F.num(ed["mean_lam"]), F)
        return mu + kap * (F.num(ed["gamma"]) - F.num(ed["delta"]) * mu)
    raise ValueError(t)


def _find_expdecay(ks):
    if ks["k"] == "expdecay":
        return ks
    if ks["k"] in ("scaled", "warped"):
        return _find_expdecay(ks["base"])
    raise ValueError("mean 'expdecay' needs an expdecay kernel spec")


def _k(ks, x1, x2, F, doc):
    t = ks["k"]
    if t == "matern52":
        d = int(ks["d"])
        ib = ks["inv_bw"]
        ib = [ib[0]] * d if len(ib) == 1 else ib
        s = 0
        for k in range(d):
            diff = (x1[k] - x2[k]) * F.num(ib[k])
            s = s + diff * diff
        D = 5 * s
        b = F.sqrt(D + F.num(NUMERICAL_JITTER)) if doc else F.sqrt(D)
        return F.num(ks["cov_scale"]) * (1 + b + D / 3) * F.exp(-b)
    if t == "warped":
        return _k(ks["base"], _warp_coords(ks, x1, F), _warp_coords(ks, x2, F), F, doc)
    if t == "scaled":
        return F.num(ks["scale"]) * _k(ks["base"], x1, x2, F, doc)
    if t == "product":
        d1 = kernel_dim(ks["k1"])
        return _k(ks["k1"], x1[:d1], x2[:d1], F, doc) * _k(ks["k2"], x1[d1:], x2[d1:], F, doc)
    if t == "expdecay":
        dx = kernel_dim(ks["kx"])
        al, ml = F.num(ks["alpha"]), F.num(ks["mean_lam"])
        ga, de = F.num(ks["gamma"]), F.num(ks["delta"])
        kx = _k(ks["kx"], x1[:dx], x2[:dx], F, doc)
        mu1 = _mean(ks["mx"], ks["kx"], x1[:dx], F)
        mu2 = _mean(ks["mx"], ks["kx"], x2[:dx], F)
        r1, r2 = x1[dx], x2[dx]
        ka1, ka2, ka12 = _kappa(r1, al, ml, F), _kappa(r2, al, ml, F), _kappa(r1 + r2, al, ml, F)
        return kx * (1 - de * (ka1 + ka2 - de * ka12)) + (ga - de * mu1) * (ga - de * mu2) * (ka12 - ka1 * ka2)
    raise ValueError(t)


def _kd(ks, x, F):
    """Textbook prior variance k(x, x)."""
    t = ks["k"]
    if t == "matern52":
        return 0 * x[0] + F.num(ks["cov_scale"])
    if t == "warped":
        return _kd(ks["base"], _warp_coords(ks, x, F), F)
    if t == "scaled":
        return F.num(ks["scale"]) * _kd(ks["base"], x, F)
    if t == "product":
        d1 = kernel_dim(ks["k1"])
        return _kd(ks["k1"], x[:d1], F) * _kd(ks["k2"], x[d1:], F)
    if t == "expdecay":
        dx = kernel_dim(ks["kx"])
        al, ml = F.num(ks["alpha"]), F.num(ks["mean_lam"])
        ga, de = F.num(ks["gamma"]), F.num(ks["delta"])
        kx = _kd(ks["kx"], x[:dx], F)
        mu = _mean(ks["mx"], ks["kx"], x[:dx], F)
        r = x[dx]
        ka, ka2 = _kappa(r, al, ml, F), _kappa(2 * r, al, ml, F)
        return kx * (1 - de * (2 * ka - de * ka2)) + (ga - de * mu) ** 2 * (ka2 - ka * ka)
    raise ValueError(t)


# -------------------------------------------------------------------- matrix-level API

def _cols(X, axis):
    X = np.asarray(X, dtype=float)
    if axis == 0:
        return [X[:, k].reshape(-1, 1) for k in range(X.shape[1])]
    return [X[:, k].reshape(1, -1) for k in range(X.shape[1])]


def kernel_matrix(ks, X1, X2, doc=True, mp=False):
    """k(X1, X2), shape (n1, n2).  mp=True -> mpmath.matrix evaluated at MP_DPS digits."""
    X1 = np.asarray(X1, dtype=float)
    X2 = np.asarray(X2, dtype=float)
    assert X1.shape[1] == X2.shape[1] == kernel_dim(ks)
    if not mp:
        out = _k(ks, _cols(X1, 0), _cols(X2, 1), _NP, doc)
        return np.broadcast_to(out, (X1.shape[0], X2.shape[0])).astype(float)
    with mpmath.workdps(MP_DPS):
        M = mpmath.matrix(X1.shape[0], X2.shape[0])
        r1 = [[mpmath.mpf(float(v)) for v in row] for row in X1]
        r2 = [[mpmath.mpf(float(v)) for v in row] for row in X2]
        for i, a in enumerate(r1):
            for j, b in enumerate(r2):
                M[i, j] = _k(ks, a, b, _MP, doc)
        return M


def kernel_entry_mp(ks, x1, x2, doc=True):
    """One kernel value k(x1, x2) as mpmath.mpf (x1, x2: sequences of floats); call inside any dps context
    (evaluated at MP_DPS digits)."""
    with mpmath.workdps(MP_DPS):
        return _k(ks, [mpmath.mpf(float(v)) for v in x1], [mpmath.mpf(float(v)) for v in x2], _MP, doc)


def kernel_diag(ks, X, mp=False):
    """Textbook prior variances k(x_i, x_i), shape (n,)."""
    X = np.asarray(X, dtype=float)
    if not mp:
        out = _kd(ks, [X[:, k] for k in range(X.shape[1])], _NP)
        return np.broadcast_to(out, (X.shape[0],)).astype(float)
    with mpmath.workdps(MP_DPS):
        return [_kd(ks, [mpmath.mpf(float(v)) for v in row], _MP) for row in X]


def mean_vector(ms, X, ks=None, mp=False):
    """m(X), shape (n,)."""
    X = np.asarray(X, dtype=float)
    if not mp:
        out = _mean(ms, ks, [X[:, k] for k in range(X.shape[1])], _NP)
        return np.broadcast_to(out, (X.shape[0],)).astype(float)
    with mpmath.workdps(MP_DPS):
        return [_mean(ms, ks, [mpmath.mpf(float(v)) for v in row], _MP) for row in X]


def warp_points(ks_warped, X):
    """Warped coordinates of X under a 'warped' kernel spec (numpy)."""
    X = np.asarray(X, dtype=float)
    cols = _warp_coords(ks_warped, [X[:, k] for k in range(X.shape[1])], _NP)
    return np.stack([np.broadcast_to(c, (X.shape[0],)) for c in cols], axis=1)


# ------------------------------------------------------------------ dense GP (numpy)

class DenseGP:
    """Dense GP regression on given matrices: A = K + diag(diag_add), R = Y - m(X) (n, m)."""

    mp = False

    def __init__(self, K, diag_add, R):
        K = np.asarray(K, dtype=float)
        n = K.shape[0]
        self.n = n
        self.A = K + np.diag(np.broadcast_to(np.asarray(diag_add, dtype=float), (n,)))
        self.R = np.asarray(R, dtype=float).reshape(n, -1)
        self.alpha = np.linalg.solve(self.A, self.R)
        self._Ainv = None

    @property
    def Ainv(self):
        if self._Ainv is None:
            self._Ainv = np.linalg.solve(self.A, np.eye(self.n))
        return self._Ainv

    def cond(self):
        return float(np.linalg.cond(self.A))

    def weights(self, Ks):
        """W = (A^{-1} K*)^T, shape (nt, n)."""
        return np.linalg.solve(self.A, np.asarray(Ks, dtype=float)).T

    def weights_var(self, Ks, kss):
        """(W (nt,n), unfloored variances (nt,)) for Ks = k(X, X*), kss = k(x*, x*)."""
        Ks = np.asarray(Ks, dtype=float)
        W = self.weights(Ks)
        return W, np.asarray(kss, dtype=float) - np.einsum("ti,it->t", W, Ks)

    def predict(self, Ks, kss, mt):
        """Ks = k(X, X*) (n, nt), kss = k(x*,x*) (nt,), mt = m(X*) (nt,).
        Returns means (nt, m) and *unfloored* variances (nt,)."""
        Ks = np.asarray(Ks, dtype=float)
        W = self.weights(Ks)
        mean = W @ self.R + np.asarray(mt, dtype=float).reshape(-1, 1)
        var = np.asarray(kss, dtype=float) - np.einsum("ti,it->t", W, Ks)
        return mean, var

    def post_cov(self, Ks, Ktt):
        Ks = np.asarray(Ks, dtype=float)
        return np.asarray(Ktt, dtype=float) - self.weights(Ks) @ Ks

    @property
    def logdet(self):
        if getattr(self, "_logdet", None) is None:
            sign, ld = np.linalg.slogdet(self.A)
            self._logdet = float(ld) if sign > 0 else float("nan")
        return self._logdet

    def quad(self):
        """r_j^T A^{-1} r_j per column, shape (m,)."""
        return np.einsum("ij,ij->j", self.R, self.alpha)

    def nlml(self, col=0):
        return float(0.5 * (self.n * math.log(2 * math.pi) + self.logdet + self.quad()[col]))


# ------------------------------------------------------------------ dense GP (mpmath)

def _to_mp_matrix(M):
    if isinstance(M, mpmath.matrix):
        return M
    M = np.asarray(M, dtype=float)
    if M.ndim == 1:
        M = M.reshape(-1, 1)
    out = mpmath.matrix(M.shape[0], M.shape[1])
    for i in range(M.shape[0]):
        for j in range(M.shape[1]):
            out[i, j] = mpmath.mpf(float(M[i, j]))
    return out


def _to_np(M):
    return np.array([[float(M[i, j]) for j in range(M.cols)] for i in range(M.rows)], dtype=float)


class DenseGPmp:
    """Same as DenseGP in mpmath arithmetic (MP_DPS digits); inputs may be mpmath matrices or float arrays,
    outputs are float ndarrays (correctly rounded results of the exact expressions on the given inputs).

    Small hand-written list-based Cholesky / triangular inverse (n <= ~10) — mpmath's generic matrix class is
    several times slower; falls back to mpmath's LU inverse if a pivot is not positive."""

    mp = True

    def __init__(self, K, diag_add, R):
        with mpmath.workdps(MP_DPS):
            K = _to_mp_matrix(K)
            n = K.rows
            self.n = n
            da = [mpmath.mpf(float(v)) for v in np.broadcast_to(np.asarray(diag_add, dtype=float), (n,))]
            A = [[K[i, j] for j in range(n)] for i in range(n)]
            for i in range(n):
                A[i][i] = A[i][i] + da[i]
            if isinstance(R, mpmath.matrix):
                Rl = [[R[i, c] for c in range(R.cols)] for i in range(n)]
            else:
                Rf = np.asarray(R, dtype=float).reshape(n, -1)
                Rl = [[mpmath.mpf(float(v)) for v in row] for row in Rf]
            m = len(Rl[0]) if n else 0
            self._A, self._R, self.m = A, Rl, m
            Ainv, logdet = self._chol_inverse(A, n)
            if Ainv is None:
                Amat = mpmath.matrix(A)
                inv = Amat ** -1
                Ainv = [[inv[i, j] for j in range(n)] for i in range(n)]
                logdet = mpmath.log(mpmath.det(Amat))
            self._Ainv, self._logdet_mp = Ainv, logdet
            self._alpha = [[mpmath.fdot(Ainv[i], [Rl[k][c] for k in range(n)]) for c in range(m)] for i in range(n)]
            self.A = np.array([[float(v) for v in row] for row in A], dtype=float).reshape(n, n)
            self.R = np.array([[float(v) for v in row] for row in Rl], dtype=float).reshape(n, m)
            self.alpha = np.array([[float(v) for v in row] for row in self._alpha], dtype=float).reshape(n, m)
            self.Ainv = np.array([[float(v) for v in row] for row in Ainv], dtype=float).reshape(n, n)
            self._logdet = float(logdet)

    @staticmethod
    def _chol_inverse(A, n):
        zero = mpmath.mpf(0)
        L = [[zero] * n for _ in range(n)]
        for j in range(n):
            s = A[j][j] - mpmath.fdot(L[j][:j], L[j][:j])
            if not s > 0:
                return None, None
            L[j][j] = mpmath.sqrt(s)
            for i in range(j + 1, n):
                L[i][j] = (A[i][j] - mpmath.fdot(L[i][:j], L[j][:j])) / L[j][j]
        # M = L^{-1} (lower triangular)
        M = [[zero] * n for _ in range(n)]
        for j in range(n):
            M[j][j] = 1 / L[j][j]
            for i in range(j + 1, n):
                M[i][j] = -mpmath.fdot(L[i][j:i], [M[k][j] for k in range(j, i)]) / L[i][i]
        Ainv = [[zero] * n for _ in range(n)]
        for i in range(n):
            for j in range(i + 1):
                v = mpmath.fdot([M[k][i] for k in range(i, n)], [M[k][j] for k in range(i, n)])
                Ainv[i][j] = v
                Ainv[j][i] = v
        logdet = 2 * mpmath.fsum(mpmath.log(L[i][i]) for i in range(n))
        return Ainv, logdet

    # mpmath-matrix views (kept for callers that want exact objects)
    @property
    def Amp(self):
        return mpmath.matrix(self._A)

    @property
    def Ainv_mp(self):
        return mpmath.matrix(self._Ainv)

    @property
    def alpha_mp(self):
        return mpmath.matrix(self._alpha)

    def cond(self):
        return float(np.linalg.norm(self.A, 2) * np.linalg.norm(self.Ainv, 2))

    def _wt(self, Ks):
        """A^{-1} Ks as list of rows (n x nt) of mpf, and Ks columns."""
        Ks = _to_mp_matrix(Ks)
        nt = Ks.cols
        cols = [[Ks[i, t] for i in range(self.n)] for t in range(nt)]
        Wt = [[mpmath.fdot(self._Ainv[i], cols[t]) for t in range(nt)] for i in range(self.n)]
        return Wt, cols, nt

    def weights(self, Ks):
        with mpmath.workdps(MP_DPS):
            Wt, _, nt = self._wt(Ks)
            return np.array([[float(Wt[i][t]) for i in range(self.n)] for t in range(nt)], dtype=float).reshape(nt, self.n)

    def weights_var(self, Ks, kss):
        with mpmath.workdps(MP_DPS):
            Wt, cols, nt = self._wt(Ks)
            kss = [v if isinstance(v, mpmath.mpf) else mpmath.mpf(float(v)) for v in list(kss)]
            var = np.array([float(kss[t] - mpmath.fdot([Wt[i][t] for i in range(self.n)], cols[t]))
                            for t in range(nt)], dtype=float)
            W = np.array([[float(Wt[i][t]) for i in range(self.n)] for t in range(nt)], dtype=float).reshape(nt, self.n)
            return W, var

    def predict(self, Ks, kss, mt):
        with mpmath.workdps(MP_DPS):
            Wt, cols, nt = self._wt(Ks)
            mt = [v if isinstance(v, mpmath.mpf) else mpmath.mpf(float(v)) for v in list(mt)]
            kss = [v if isinstance(v, mpmath.mpf) else mpmath.mpf(float(v)) for v in list(kss)]
            mean = np.array([[float(mpmath.fdot(cols[t], [self._alpha[i][c] for i in range(self.n)]) + mt[t])
                              for c in range(self.m)] for t in range(nt)], dtype=float).reshape(nt, self.m)
            var = np.array([float(kss[t] - mpmath.fdot([Wt[i][t] for i in range(self.n)], cols[t]))
                            for t in range(nt)], dtype=float)
            return mean, var

    def post_cov(self, Ks, Ktt):
        with mpmath.workdps(MP_DPS):
            Wt, cols, nt = self._wt(Ks)
            Ktt = _to_mp_matrix(Ktt)
            out = np.empty((nt, nt))
            for s_ in range(nt):
                ws = [Wt[i][s_] for i in range(self.n)]
                for t in range(s_, nt):
                    v = float(Ktt[s_, t] - mpmath.fdot(ws, cols[t]))
                    out[s_, t] = v
                    out[t, s_] = v
            return out

    @property
    def logdet(self):
        return self._logdet

    def quad(self):
        with mpmath.workdps(MP_DPS):
            return np.array([float(mpmath.fdot([self._R[i][c] for i in range(self.n)],
                                               [self._alpha[i][c] for i in range(self.n)]))
                             for c in range(self.m)], dtype=float)

    def nlml(self, col=0):
        with mpmath.workdps(MP_DPS):
            quad = mpmath.fdot([self._R[i][col] for i in range(self.n)], [self._alpha[i][col] for i in range(self.n)])
            return float((self.n * mpmath.log(2 * mpmath.pi) + self._logdet_mp + quad) / 2)


# ------------------------------------------------------------------ convenience wrapper

class _Model:
    def __init__(self, gp, ks, ms, X, doc, mp):
        self.gp, self.ks, self.ms, self.X, self.doc, self.mp = gp, ks, ms, X, doc, mp

    def predict_at(self, Xt, floor=True):
        """Posterior means (nt, m) and variances (nt,) at Xt (variances floored at MIN_POSTERIOR_VARIANCE)."""
        Ks = kernel_matrix(self.ks, self.X, Xt, doc=self.doc, mp=self.mp)
        mean, var = self.gp.predict(Ks, kernel_diag(self.ks, Xt, mp=self.mp),
                                    mean_vector(self.ms, Xt, self.ks, mp=self.mp))
        return mean, (np.maximum(var, MIN_POSTERIOR_VARIANCE) if floor else var)

    def cov_at(self, Xt):
        Ks = kernel_matrix(self.ks, self.X, Xt, doc=self.doc, mp=self.mp)
        return self.gp.post_cov(Ks, kernel_matrix(self.ks, Xt, Xt, doc=self.doc, mp=self.mp))

    def nlml(self, col=0):
        return self.gp.nlml(col)

    def cond(self):
        return self.gp.cond()


def dense_gp(ks, ms, noise_variance, X, Y, mp=False, doc=True):
    """Dense GP for kernel spec ks, mean spec ms, noise variance (scalar or per-point vector), data X (n,d), Y (n,m).

    Returns an object with predict_at(Xt) -> (means (nt,m), variances (nt,)), cov_at(Xt), nlml(col), cond()."""
    X = np.asarray(X, dtype=float)
    Y = np.asarray(Y, dtype=float).reshape(X.shape[0], -1)
    K = kernel_matrix(ks, X, X, doc=doc, mp=mp)
    if mp:
        with mpmath.workdps(MP_DPS):
            mv = mean_vector(ms, X, ks, mp=True)
            R = mpmath.matrix(Y.shape[0], Y.shape[1])
            for i in range(Y.shape[0]):
                for j in range(Y.shape[1]):
                    R[i, j] = mpmath.mpf(float(Y[i, j])) - mv[i]
        gp = DenseGPmp(K, noise_variance, R)
    else:
        gp = DenseGP(K, noise_variance, Y - mean_vector(ms, X, ks).reshape(-1, 1))
    return _Model(gp, ks, ms, X, doc, mp)
