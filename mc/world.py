"""Metric tables in general position and their enumeration."""
import itertools

BASE = [0.318, 1.207, 2.449, 3.061, 4.733, 5.392, 6.871, 7.519]


def table_from_perms(T, R, perms, sign=1.0, zero_rank=None):
    """perms: dict level -> permutation (tuple of ranks per trial). Other levels: identity.
    value(t, r) = BASE[rank_r(t)] - 0.013*r   (distinct per level, improving with r for 'min').
    zero_rank=k shifts every level so that the trial of rank k reports exactly 0.0 (-0.0 for sign<0) there:
    metric values that are falsy / have no sign are legal inputs."""
    ident = tuple(range(T))
    tab = []
    for t in range(T):
        row = []
        for r in range(1, R + 1):
            p = perms.get(r, ident)
            if zero_rank is None:
                row.append(sign * (BASE[p[t]] - 0.013 * r))
            else:
                row.append(sign * (BASE[p[t]] - BASE[zero_rank]))
        tab.append(row)
    return tab


def all_perms(T):
    return list(itertools.permutations(range(T)))


def rotate(lst, k):
    lst = list(lst)
    if not lst:
        return lst
    k %= len(lst)
    return lst[k:] + lst[:k]
