"""C06 — suggestions are valid, typed configurations; initial points first; no repeats."""
import math

from .. import env
from ..core import Result, pmap, Violation, Coverage
from ..schedx import World, explore, Oracle, canon, digest_str, _SKIP_ATTR, RUN, PAUSED, STOPPED, DONE, FAILED
from .. import c06_ref as ref

LEVEL = "model_checking"
PROP = "C06"

BO_REAL = dict(opt_nstarts=1, opt_maxiter=5, num_init_candidates=10, num_init_random=2)
BO_RAND = dict(num_init_random=10 ** 6)

# kind -> (scheduler family, searcher, search options, traits)
KINDS = {
    "fifo-random": dict(fam="fifo", searcher="random", so={}),
    "fifo-random-dup": dict(fam="fifo", searcher="random", so={"allow_duplicates": True}, dup=True),
    "fifo-grid": dict(fam="fifo", searcher="grid", so={}, grid=True),
    "fifo-grid-noshuffle": dict(fam="fifo", searcher="grid", so={"shuffle_config": False}, grid=True),
    "fifo-bo": dict(fam="fifo", searcher="bayesopt", so=BO_REAL, gp=True),
    "fifo-bo-rand": dict(fam="fifo", searcher="bayesopt", so=BO_RAND, gp=True),
    "hb-stop-random": dict(fam="hb", type="stopping", searcher="random", so={}),
    "hb-prom-random": dict(fam="hb", type="promotion", searcher="random", so={}, pr=True),
    "hb-stop-bo": dict(fam="hb", type="stopping", searcher="bayesopt", so=BO_REAL, gp=True),
    "hb-prom-bo": dict(fam="hb", type="promotion", searcher="bayesopt", so=BO_REAL, gp=True, pr=True),
    "hb-stop-bo-rand": dict(fam="hb", type="stopping", searcher="bayesopt", so=BO_RAND, gp=True),
    "hb-prom-bo-rand": dict(fam="hb", type="promotion", searcher="bayesopt", so=BO_RAND, gp=True, pr=True),
    "hb-stop-hypertune": dict(fam="hb", type="stopping", searcher="hypertune", so=BO_REAL, gp=True),
    "hb-prom-hypertune": dict(fam="hb", type="promotion", searcher="hypertune", so=BO_REAL, gp=True, pr=True),
    "dehb": dict(fam="dehb", pr=True, so={}),
    "dehb-nopr": dict(fam="dehb", pr=True, so={}, nopr=True),
    "pbt": dict(fam="pbt", so={}),
}
MRA = "epochs"


# ------------------------------------------------------------------------------------------------ system under test

def make_scheduler(cfg):
    from syne_tune.optimizer.schedulers import FIFOScheduler, HyperbandScheduler, PopulationBasedTraining
    k = KINDS[cfg["kind"]]
    space = ref.build_space(cfg["space"])
    P = ref.P2E[cfg["space"]][cfg["p2e"]]
    P = None if P is None else [dict(p) for p in P]
    so = dict(k["so"])
    so["debug_log"] = False
    R = cfg["R"]
    common = dict(metric="m", mode=cfg.get("mode", "min"), random_seed=cfg["seed"], points_to_evaluate=P,
                  search_options=so)
    if k["fam"] == "fifo":
        if k.get("grid") and cfg["space"] in ref.GRID_NUM_SAMPLES:
            so["num_samples"] = dict(ref.GRID_NUM_SAMPLES[cfg["space"]])
        s = FIFOScheduler(space, searcher=k["searcher"], **common)
    elif k["fam"] == "hb":
        space[MRA] = R
        s = HyperbandScheduler(space, searcher=k["searcher"], type=k["type"], resource_attr="epoch",
                               max_resource_attr=MRA, grace_period=1, reduction_factor=2, **common)
    elif k["fam"] == "dehb":
        from syne_tune.optimizer.schedulers.synchronous import DifferentialEvolutionHyperbandScheduler
        space[MRA] = R
        rungs = [(3, 1), (1, R)] if R == 2 else [(3, 1), (2, 2), (1, R)]
        s = DifferentialEvolutionHyperbandScheduler(space, rungs_first_bracket=rungs, resource_attr="epoch",
                                                    max_resource_attr=MRA, searcher="random_encoded",
                                                    support_pause_resume=not k.get("nopr", False), **common)
    elif k["fam"] == "pbt":
        s = PopulationBasedTraining(space, resource_attr="epoch", max_t=R, population_size=2, perturbation_interval=1,
                                    quantile_fraction=0.5, resample_probability=0.25, **common)
    else:
        raise ValueError(cfg["kind"])
    if hasattr(s, "set_time_keeper"):
        s.set_time_keeper(env.ConstTimeKeeper())
    return s


def metric_table(T, R, variant):
    """distinct values in general position; variant 1 reverses which trials look good"""
    tab = []
    for t in range(T):
        u = t if variant == 0 else (T - 1 - t)
        tab.append([((u * 5 + r * 3) % 7) + 0.1 * u + 0.013 * r + 0.05 for r in range(1, R + 1)])
    return tab


def _gp_summary(srch):
    st = srch.state_transformer
    state = st.state
    parts = [
        canon(getattr(srch, "_points_to_evaluate", None)),
        canon(srch.random_state),
        canon(sorted((str(t), sorted((k, repr(v)) for k, v in c.items())) for t, c in state.config_for_trial.items())),
        canon([(str(e.trial_id), canon(e.metrics)) for e in state.trials_evaluations]),
        canon(sorted(str(x) for x in state.failed_trials)),
        canon(sorted((str(p.trial_id), repr(getattr(p, "resource", None))) for p in state.pending_evaluations)),
    ]
    try:
        parts.append(canon(sorted((k, repr(v)) for k, v in srch.model_parameters().items())))
    except AssertionError:      # multi-fidelity model not completed before the first suggest
        parts.append("model:unconfigured")
    rs = getattr(srch, "_random_searcher", None)
    if rs is not None:
        parts.append(canon(sorted(rs._excl_list.excl_set)))
    return "|".join(parts)


class C06World(World):
    """World whose digest replaces the surrogate-model sub-graph of GP searchers (block names carry process-global
    counters) by (remaining initial points, RNG state, TuningJobState content, model parameters)."""

    NONE_LIMIT = 2   # 'until exhaustion + 2': no further suggest events after the second None

    def enabled(self):
        evs = super().enabled()
        if self.oracles and self.oracles[0].n_none >= self.NONE_LIMIT:
            evs = [e for e in evs if e[0] != "S"]
        return evs

    def digest(self):
        srch = getattr(self.s, "searcher", None)
        if srch is not None and hasattr(srch, "state_transformer"):
            skip = set(_SKIP_ATTR) | {"_searcher", "searcher"}
            parts = [canon(self.s, skip=skip), _gp_summary(srch)]
        else:
            parts = [canon(self.s)]
        parts.append(self.world_digest())
        for o in self.oracles:
            parts.append(o.digest())
        return digest_str("|".join(parts))


# ------------------------------------------------------------------------------------------------ oracle

def _tname(v):
    return type(v).__module__.split(".")[0] + "." + type(v).__name__ if type(v).__module__ != "builtins" else type(v).__name__


def _dom(spec):
    return spec[0] + ("-" + spec[2] if spec[0] == "ordinal" else "")


class SuggestionOracle(Oracle):
    """Checks every suggestion of the real scheduler against the reference in c06_ref."""

    def __init__(self, cfg):
        self.cfg = cfg
        self.k = KINDS[cfg["kind"]]
        self.space = ref.SPACES[cfg["space"]]
        self.hp = ref.hp_items(self.space)
        self.size = ref.space_size(self.space)
        self.E = ref.impute(ref.P2E[cfg["space"]][cfg["p2e"]], self.space)
        self.fam = self.k["fam"]
        self.mra = MRA if self.fam in ("hb", "dehb") else None
        self.R = cfg["R"]
        self.grid = None
        if self.k.get("grid"):
            self.grid = ref.grid_points(self.space, ref.GRID_NUM_SAMPLES.get(cfg["space"], {}))
        # history of new-trial suggestions: (trial id, hp config, origin)
        self.new = []
        self.n_drawn = 0     # number of searcher-drawn suggestions so far
        self.n_none = 0

    # -- validity of one configuration
    def _valid(self, cfg, origin):
        out = []
        want = [k for k, _ in self.space] + ([self.mra] if self.mra else [])
        for k in want:
            if k not in cfg:
                return [(f"keys:missing@{origin}", f"suggested config lacks key {k!r}: {cfg}")]
        for k in cfg:
            if k not in want:
                return [(f"keys:extra@{origin}", f"suggested config has key {k!r} which is not in config_space: {cfg}")]
        for k, spec in self.space:
            v = cfg[k]
            if spec[0] == "const":
                c = spec[1]
                if type(v) is not type(c) or v != c:
                    out.append((f"const:changed:{type(c).__name__}->{_tname(v)}@{origin}",
                                f"constant {k!r}={c!r} suggested as {v!r} ({_tname(v)})"))
                continue
            vt = ref.value_type(spec)
            if type(v) is not vt:
                out.append((f"type:{_dom(spec)}:{_tname(v)}@{origin}",
                            f"{k!r} ({spec}) must have type {vt.__name__}, suggested {v!r} of type {_tname(v)}"))
                continue
            if isinstance(v, float) and not math.isfinite(v):
                out.append((f"member:{_dom(spec)}:nonfinite@{origin}", f"{k!r} ({spec}) suggested as {v!r}"))
                continue
            if not ref.member(spec, v):
                out.append((f"member:{_dom(spec)}@{origin}", f"{k!r}={v!r} is outside {spec}"))
        if self.mra:
            v = cfg[self.mra]
            override_ok = bool(self.k.get("pr"))
            if type(v) is not int:
                out.append((f"const:changed:int->{_tname(v)}@{origin}",
                            f"max_resource_attr {self.mra!r} suggested as {v!r} ({_tname(v)})"))
            elif override_ok and not (1 <= v <= self.R):
                out.append((f"const:max_resource_attr-out-of-range@{origin}", f"{self.mra!r}={v} not in 1..{self.R}"))
            elif not override_ok and v != self.R:
                out.append((f"const:changed:int->int@{origin}",
                            f"constant {self.mra!r}={self.R} suggested as {v} by a scheduler that does not pause/resume"))
        return out

    def _hp(self, cfg):
        return {k: cfg[k] for k, _ in self.hp}

    def _status_word(self, world, t):
        return {RUN: "pending", PAUSED: "paused", STOPPED: "stopped", DONE: "done", FAILED: "failed"}[world.status[t]]

    # -- new trial
    def _on_start(self, world, tid, ckpt):
        cfg = world.trials[tid].config
        fam = self.fam
        drawn = True
        origin = "draw"
        dehb_promo_of = None
        if fam == "pbt" and ckpt is not None:
            drawn, origin = False, "explore"
        if fam == "dehb":
            n0 = 3
            drawn = len(self.new) < n0
            origin = "draw" if drawn else "evolve"
            if self.k.get("nopr"):
                info = getattr(world.s, "_trial_info", {})
                mine = info.get(tid)
                if mine is not None:
                    for t0, _, _ in self.new:
                        o = info.get(t0)
                        if o is not None and o.encoded_config is mine.encoded_config:
                            dehb_promo_of = t0
                            origin = "promote"
                            break
        idx = self.n_drawn
        if drawn and idx < len(self.E):
            origin = "init"
        v = self._valid(cfg, origin)
        if v:
            return v
        hp = self._hp(cfg)
        out = []
        # initial points first, in order
        if drawn and idx < len(self.E):
            bad = ref.matches(self.E[idx], hp)
            if bad is not None:
                other = [j for j, e in enumerate(self.E) if j != idx and ref.matches(e, hp) is None]
                if any(j < idx for j in other):
                    key = "init:duplicate-not-removed"
                elif other:
                    key = "init:order"
                else:
                    spec = dict(self.hp)[bad]
                    P = ref.P2E[self.cfg["space"]][self.cfg["p2e"]]
                    given = P is not None and len(P) > 0 and any(bad in p for p in P)
                    key = f"init:value:{_dom(spec)}:" + ("given-or-imputed" if given else "imputed")
                out.append((key, f"searcher-drawn suggestion #{idx} must be initial point {self.E[idx]} "
                                 f"(points_to_evaluate={ref.P2E[self.cfg['space']][self.cfg['p2e']]}), got {hp}"))
        # grid: later suggestions are grid points
        if self.grid is not None and drawn and idx >= len(self.E):
            if not any(ref.same_config(self.space, g, hp) for g in self.grid):
                out.append(("grid:off-grid", f"grid searcher suggested {hp} which is not a grid point"))
        # no repeats
        if self.k.get("dup"):
            for t0, h0, _ in self.new:
                if world.status[t0] == FAILED and ref.same_config(self.space, h0, hp):
                    out.append(("repeat:of-failed:allow_duplicates", f"trial {tid} got the configuration of failed trial {t0}: {hp}"))
                    break
        elif fam == "pbt":
            if drawn:
                for t0, h0, o0 in self.new:
                    if o0 in ("draw", "init") and ref.same_config(self.space, h0, hp):
                        out.append((f"repeat:of-{self._status_word(world, t0)}",
                                    f"random searcher of PBT drew {hp} for trial {tid}, already drawn for trial {t0}"))
                        break
        else:
            for t0, h0, _ in self.new:
                if t0 == dehb_promo_of:
                    continue
                if ref.same_config(self.space, h0, hp):
                    if dehb_promo_of is not None and any(t1 == dehb_promo_of and ref.same_config(self.space, h1, h0)
                                                         for t1, h1, _ in self.new):
                        continue  # same configuration as the promoted parent: part of the documented re-use
                    out.append((f"repeat:of-{self._status_word(world, t0)}",
                                f"trial {tid} got {hp}, equal to the configuration of earlier trial {t0} "
                                f"({self._status_word(world, t0)})"))
                    break
        self.new.append((tid, hp, origin))
        if drawn:
            self.n_drawn += 1
        return out

    def _on_none(self, world):
        fam = self.fam
        what = None
        if self.k.get("dup"):
            failed = [h for t, h, _ in self.new if world.status[t] == FAILED]
            if self.size is None or _n_distinct(self.space, failed) < self.size:
                what = "allow_duplicates=True"
        elif self.grid is not None:
            missing = [g for g in self.grid if not any(ref.same_config(self.space, g, h) for _, h, _ in self.new)]
            if missing:
                return [("none:grid-not-finished", f"grid searcher answered None with {len(missing)} of {len(self.grid)} "
                                                  f"grid points never suggested, e.g. {missing[0]}")]
            return []
        else:
            if fam == "pbt":
                seen = [h for _, h, o in self.new if o in ("draw", "init")]
            else:
                seen = [h for _, h, _ in self.new]
            if self.size is None:
                what = "infinite space"
            elif _n_distinct(self.space, seen) < self.size:
                what = f"{_n_distinct(self.space, seen)} of {self.size} configurations suggested"
        if what is not None:
            return [("none:premature", f"suggest returned None ('nothing left') but: {what}")]
        return []

    def after(self, world, ev, obs):
        if ev[0] != "S" or obs[0] != "suggest":
            return []
        if obs[1] == "none":
            self.n_none += 1
            return self._on_none(world)
        if obs[1] == "start":
            return self._on_start(world, obs[2], obs[4])
        if obs[1] == "resume":
            out = []
            t = obs[2]
            if obs[3] is not None:
                out = self._valid(world.trials[t].config, "resume")
                if not out:
                    old = next((h for t0, h, _ in self.new if t0 == t), None)
                    if old is not None and not ref.same_config(self.space, old, self._hp(world.trials[t].config)):
                        out.append(("resume:config-changed", f"trial {t} resumed with {world.trials[t].config}, was {old}"))
            return out
        return []

    def digest(self):
        return repr((self.n_drawn, self.n_none, [(t, sorted(h.items(), key=lambda x: x[0]), o) for t, h, o in self.new]))


def _n_distinct(space, cfgs):
    out = []
    for c in cfgs:
        if not any(ref.same_config(space, c, d) for d in out):
            out.append(c)
    return len(out)


# ------------------------------------------------------------------------------------------------ driver

def build_world(cfg):
    oracle = SuggestionOracle(cfg)      # harness side first: a catalogue error must never look like a violation
    s = make_scheduler(cfg)
    fam = KINDS[cfg["kind"]]["fam"]
    R = cfg["R"]
    # 'script' < R: the training script ends by itself before max_t (trial completes after a CONTINUE decision)
    Rw = cfg.get("script", R)
    spec = dict(W=cfg["W"], T=cfg["T"], R=Rw, table=metric_table(cfg["T"] + 1, R, cfg.get("tv", 0)), brackets=0,
                max_resource_attr=MRA if fam in ("hb", "dehb") else None, fail_budget=cfg.get("F", 0))
    return C06World(s, spec, [oracle])


def ctx_of(cfg):
    return f"{cfg['kind']}/{cfg['space']}"


def label(cfg):
    return {k: cfg[k] for k in sorted(cfg)}


def task(cfg):
    import os
    import time
    t0 = time.process_time()
    out = _task(cfg)
    if os.environ.get("C06_PROFILE"):
        with open(os.environ["C06_PROFILE"], "a") as f:
            f.write(f"{time.process_time() - t0:.2f} {out[0].c.get('states')} {out[0].exhaustive} {label(cfg)}\n")
    return out


def _task(cfg):
    SuggestionOracle(cfg)
    try:
        w = build_world(cfg)
    except Exception as e:  # construction of a documented configuration failed
        from ..schedx import exc_site
        cov = Coverage()
        cov.add("states")
        key = f"{ctx_of(cfg)}|exc:{type(e).__name__}@{exc_site(e)}:construct"
        return cov, [Violation(PROP, key, f"constructing the scheduler raised {type(e).__name__}: {str(e)[:200]}",
                               {"engine": "schedx", "cfg": label(cfg), "history": []})]
    del w
    cov, viols = explore(lambda: build_world(cfg), PROP, label(cfg), max_depth=cfg.get("D"),
                         max_states=cfg.get("max_states"), ctx=ctx_of(cfg))
    return cov, viols


def _mk(kind, space, p2e, seed=0, W=1, F=0, R=None, T=None, D=None, tv=0, max_states=None, script=None):
    fam = KINDS[kind]["fam"]
    if R is None:
        R = 1 if fam == "fifo" else 2
    size = ref.space_size(ref.SPACES[space])
    if T is None:
        T = size + 2 if size is not None else 6
    cfg = dict(kind=kind, space=space, p2e=p2e, seed=seed, W=W, F=F, R=R, T=T, tv=tv)
    if D is not None:
        cfg["D"] = D
    if script is not None:
        cfg["script"] = script
    if max_states is not None:
        cfg["max_states"] = max_states
    return cfg


def configs(tier, seed):
    q = tier == "quick"
    out = []
    cap = 3000 if q else 40000

    def names(space, *want):
        return [n for n in want if n in ref.P2E[space]]

    ALLP = ("none", "empty", "one-empty", "partial", "dups", "full", "offgrid", "ongrid", "castable", "onbound", "nearbound")

    # ---- A. finite spaces, explored until the searcher answers None twice (T = size + 2)
    for kind in ("fifo-random", "fifo-grid", "fifo-bo-rand", "hb-stop-random", "hb-prom-random", "hb-stop-bo-rand",
                 "hb-prom-bo-rand"):
        costly = kind.endswith("bo-rand") or kind.startswith("hb")
        for space in ("fin6", "fin4", "degen", "fin9", "finlog"):
            size = ref.space_size(ref.SPACES[space])
            for p in names(space, *ALLP):
                for sd in (0, 1) if q else ((0, 1) if kind.endswith("bo-rand") else (0, 1, 2)):
                    if size > 6:
                        if sd > (0 if q else 1) or (q and costly and p not in ("none", "partial")):
                            continue
                        out.append(_mk(kind, space, p, seed=sd, W=1, F=0 if kind.startswith("hb") else 1, tv=sd % 2,
                                       max_states=cap))
                        if not q and not costly and sd == 0:
                            out.append(_mk(kind, space, p, seed=sd, W=2, F=0, tv=sd % 2, max_states=3000))
                        continue
                    if q:
                        if sd == 1 and p not in ("partial", "dups", "full", "castable"):
                            continue
                        wide = sd == 0 and p in ("partial", "dups") and not (costly and kind.endswith("bo-rand"))
                        out.append(_mk(kind, space, p, seed=sd, W=2 if wide else 1, F=1, tv=sd % 2, max_states=cap))
                    else:
                        out.append(_mk(kind, space, p, seed=sd, W=2, F=1, tv=sd % 2,
                                       max_states=4000 if kind.endswith("bo-rand") else cap))
                        if sd == 0:
                            out.append(_mk(kind, space, p, seed=sd, W=1, F=2, tv=1, max_states=cap))
    # a finite space of 200 configurations driven to exhaustion along the single history of one worker (no branching):
    # rejection sampling must neither repeat itself nor give up before the space is used up
    for p in ("none", "partial", "castable"):
        for sd in (0, 1) if q else (0, 1, 2, 3, 4):
            if p == "castable" and sd > 0:
                continue
            out.append(_mk("fifo-random", "fin200", p, seed=sd, W=1, F=0, max_states=None))
    # training script ends before max_t: trials complete after a CONTINUE decision (on_trial_complete path)
    for kind in ("hb-stop-random", "hb-stop-bo-rand"):
        for space in ("fin6", "fin4"):
            for p in names(space, "none", "partial") if q else names(space, "none", "partial", "dups", "full"):
                out.append(_mk(kind, space, p, seed=0, W=2, F=1, script=1, max_states=1500 if q else cap))
    for space in ("fin6", "fin4"):
        for p in names(space, "partial", "dups", "castable"):
            for sd in (0,) if q else (0, 1, 2):
                out.append(_mk("fifo-grid-noshuffle", space, p, seed=sd, W=2, F=1, max_states=cap))
                out.append(_mk("fifo-random-dup", space, p, seed=sd, W=2, F=2, T=6, D=12 if q else 16, max_states=cap))
    # grid with float dimensions: 3*2*3 = 18 grid points + initial ones
    for p in names("gridf", *ALLP):
        for sd in (0,) if q else (0, 1, 2):
            out.append(_mk("fifo-grid", "gridf", p, seed=sd, W=1, F=1, T=22, max_states=cap))
            if not q:
                out.append(_mk("fifo-grid-noshuffle", "gridf", p, seed=sd, W=2, F=0, T=22, max_states=3000))
    # ---- B. infinite / mixed / quantised spaces: validity, typing, initial points; depth bound
    for kind in ("fifo-random", "fifo-bo-rand", "hb-stop-random", "hb-prom-random", "hb-stop-bo-rand", "pbt", "dehb",
                 "dehb-nopr"):
        fam = KINDS[kind]["fam"]
        for space in ("inf", "mix", "quant"):
            for p in names(space, *ALLP):
                for sd in (0, 1):
                    if q and sd > 0 and p != "partial":
                        continue
                    if q and kind == "hb-stop-bo-rand" and p not in ("none", "partial"):
                        continue
                    D = (9 if q else 11) if fam == "fifo" else (10 if q else 12)
                    out.append(_mk(kind, space, p, seed=sd, W=2, F=1, T=5 if q else 6, D=D, tv=sd % 2,
                                   max_states=1500 if q else 2500))
    # ---- C. PBT and DEHB on finite spaces
    for kind in ("pbt", "dehb", "dehb-nopr"):
        for space in ("fin6", "fin4", "fin9", "degen", "finlog"):
            size = ref.space_size(ref.SPACES[space])
            for p in names(space, *ALLP):
                for sd in (0, 1):
                    if q and sd > 0 and p != "partial":
                        continue
                    out.append(_mk(kind, space, p, seed=sd, W=2, F=1, T=min(size + 2, 7), D=12 if q else 14,
                                   tv=sd % 2, max_states=1500 if q else 3000))
    # initial points exactly on the bounds of log-scaled domains: DEHB passes them through its encoder, the GP searchers
    # through theirs; what comes back must still be a member of the domain
    for kind in ("dehb", "dehb-nopr", "fifo-random", "fifo-bo-rand", "hb-prom-bo-rand"):
        for p in ("onbound", "none"):
            if p == "none" and (q or not kind.startswith("dehb")):
                continue
            out.append(_mk(kind, "logb", p, seed=0, W=2, F=1, T=5, D=10, max_states=600 if q else 2000))
    # PBT's exploration step (and the random / DEHB samplers) on domains with negative values
    for kind in ("pbt", "dehb", "fifo-random"):
        for p in ("nearbound", "none"):
            for sd in (0, 1) if kind == "pbt" else (0,):
                out.append(_mk(kind, "neg", p, seed=sd, W=2, F=1, T=7, D=14, max_states=1500 if q else 4000))
    # ---- D. GP searchers with the real BO path (model fit + acquisition optimisation), small depth
    gp_spaces = ("fin6", "inf") if q else ("fin6", "fin9", "inf", "mix", "degen")
    for kind in ("fifo-bo", "hb-stop-bo", "hb-prom-bo", "hb-stop-hypertune", "hb-prom-hypertune"):
        fam = KINDS[kind]["fam"]
        for space in gp_spaces:
            for p in names(space, "none", "partial") if q else names(space, "none", "partial", "dups"):
                for sd in (0,) if q else (0, 1):
                    if q and kind.endswith("hypertune") and p != "none":
                        continue
                    if sd == 1 and not (space in ("fin6", "inf") and p == "partial"):
                        continue
                    D = (9 if q else 12) if fam == "fifo" else (8 if q else 10)
                    out.append(_mk(kind, space, p, seed=sd, W=2, F=1, T=4 if q else 5, D=D, tv=sd % 2,
                                   max_states=150 if q else 400))
    if not q:
        for kind in ("hb-stop-bo",):
            for space in ("fin6", "fin4"):
                out.append(_mk(kind, space, "partial", seed=0, W=2, F=1, T=5, D=10, script=1, max_states=400))
    # rotate the order only (verdicts do not depend on VERIF_SEED)
    k = (seed * 7) % max(1, len(out))
    return out[k:] + out[:k]


def run(tier, seed):
    res = Result()
    cfgs = configs(tier, seed)
    results = pmap(task, cfgs)
    order = sorted(range(len(cfgs)), key=lambda i: repr(sorted(cfgs[i].items())))
    for i in order:
        cov, viols = results[i]
        res.cov.merge(cov)
        res.violations.extend(viols)
    res.rule = ("BFS (digest dedup) over all event histories {suggest, report(t), complete(t), fail(t)} (a trial left "
                "running = pending) of real schedulers: FIFO x {random, grid, bayesopt real BO, bayesopt random phase}, "
                "Hyperband stopping/promotion x {random, bayesopt multi-fidelity, hypertune}, DEHB random_encoded with "
                "and without pause/resume, PBT; x configuration spaces from every public domain constructor (finite "
                "sizes 1,4,6,9,18 explored until the searcher answers None, infinite/mixed/quantised to a depth bound) "
                "x points_to_evaluate variants (None, [], [{}], partial, duplicates, full, off-grid). Oracle on EVERY "
                "suggestion: exact key set, constants unchanged (max_resource_attr override only for pause/resume "
                "schedulers), type(v) is the promised value type, membership computed from constructor arguments, "
                "k-th searcher-drawn suggestion == k-th imputed de-duplicated initial point (mid-point rule "
                "recomputed), no configuration equal to an earlier suggested one for no-repeat searchers, None only "
                "when the finite space/grid is used up, grid suggestions are grid points. distinct_nontrivial = "
                "distinct implementation states.")
    res.bounds = {"configs": len(cfgs), "tier": tier, "workers": "1-2", "fail_budget": "0-2",
                  "gp_search_options": dict(BO_REAL), "depth": "finite spaces: until exhaustion (T=size+2); else 8-16"}
    res.assumptions = list(env.ASSUMPTIONS) + [
        "random_seed of schedulers is taken from a fixed list (not from VERIF_SEED), so verdicts are seed independent",
        "quantised constructors (q*): membership is the closed interval and the value type; quantisation itself is "
        "a sampler property checked by C07; their mid-point may be arithmetic or geometric",
        "mid-point ties (e.g. randint(0,1), two-point finite ranges) and ordinal(kind='equal') (docstring: first entry, "
        "code comment: middle entry) accept every candidate",
        "equality of configurations: exact for str/int, relative 1e-9 for float (weaker than the implementation's "
        "match string, never stronger)",
        "PBT exploit/explore suggestions and DEHB promotions without pause/resume (identified by the shared encoded "
        "vector of the parent) are checked for validity/typing only; for DEHB the initial-point order is checked on "
        "the base rung of the first bracket only (later draws are not observable from outside)",
        "GP searcher digest = remaining initial points + RNG state + TuningJobState content + model parameters",
    ]
    return res


def replay(data):
    cfg = data["cfg"]
    hist = [tuple(e) for e in data["history"]]
    ctx = ctx_of(cfg)
    SuggestionOracle(cfg)
    try:
        w = build_world(cfg)
    except Exception as e:
        from ..schedx import exc_site
        return [Violation(PROP, f"{ctx}|exc:{type(e).__name__}@{exc_site(e)}:construct", str(e)[:200])]
    out = []
    for ev in hist:
        obs, vs = w.step(ev)
        if obs[0] == "EXC":
            out.append(Violation(PROP, f"{ctx}|exc:{obs[1]}@{obs[2]}", obs[3]))
        for k, what in vs:
            out.append(Violation(PROP, f"{ctx}|{k}", what))
    return out
