"""C13 — trial failures are contained (scheduler level: Engine A; tuning-loop level: Engine B)."""
from .. import env
from ..core import Result, pmap, Violation
from ..schedx import World, explore, Oracle, FAILED, _freeze
from .. import tunerx, scheds, monitors
from ..backends import ScriptedBackend, ScriptSpec
from ..world import table_from_perms, all_perms, rotate
from . import c03, c04, c05
from .c01 import table
from ..refs.syncsh import SyncRef

LEVEL = "fault_enumeration"
PROP = "C13"


# ----------------------------------------------------------------------------- Engine A part

def others_view(world, t):
    """bookkeeping of all trials except t, extracted from the implementation (None if unavailable)"""
    s = world.s
    out = {}
    try:
        term = getattr(s, "terminator", None)
        if term is not None:
            rungs = []
            for rs_ in term._rung_systems:
                for rung in rs_._rungs:
                    rungs.append((rung.level, sorted((str(e.trial_id), float(e.metric_val), bool(getattr(e, "was_promoted", False)))
                                                    for e in rung.data if str(e.trial_id) != str(t))))
            out["rungs"] = rungs
        searcher = getattr(s, "searcher", None)
        st = getattr(searcher, "state_transformer", None)
        if st is not None:
            state = st.state
            out["pending"] = sorted((str(p.trial_id), getattr(p, "resource", None)) for p in state.pending_evaluations
                                    if str(p.trial_id) != str(t))
            out["observed"] = sorted((str(e.trial_id), tuple(sorted((str(k), repr(v)) for k, v in e.metrics.items())))
                                     for e in state.trials_evaluations if str(e.trial_id) != str(t))
        bm = getattr(s, "bracket_manager", None)
        if bm is not None and hasattr(s, "_trial_to_pending_slot"):
            out["pending_slots"] = sorted((int(k), repr(v)) for k, v in s._trial_to_pending_slot.items() if int(k) != int(t))
    except AttributeError:
        return None
    return out


class FailureContainment(Oracle):
    """after a failure: other trials' bookkeeping unchanged by the failure event itself; the failed trial is never
    resumed; its configuration is not suggested again (no-repeat searchers)"""

    def __init__(self, no_repeat=True):
        self.failed = {}
        self.no_repeat = no_repeat
        self._before = None

    def before(self, world, ev):
        if ev[0] == "F":
            self._before = others_view(world, ev[1])

    def after(self, world, ev, obs):
        v = []
        if obs[0] == "error":
            t = obs[1]
            cfg = {k: v_ for k, v_ in world.trials[t].config.items() if k != world.max_resource_attr}
            self.failed[t] = _freeze(cfg)
            after = others_view(world, t)
            if self._before is not None and after is not None:
                for part in self._before:
                    if self._before[part] != after.get(part):
                        v.append((f"failure:others-{part}-changed",
                                  f"on_trial_error(trial {t}) changed the {part} bookkeeping of other trials: "
                                  f"{self._before[part]} -> {after.get(part)}"))
        elif obs[0] == "suggest" and obs[1] == "resume":
            if obs[2] in self.failed:
                forced = any(getattr(o, "last_resume_forced", False) for o in world.oracles)
                v.append(("failure:failed-trial-resumed" + (":rung-has-more-slots-than-survivors" if forced else ""),
                          f"trial {obs[2]} failed earlier and was suggested to be resumed"))
        elif obs[0] == "suggest" and obs[1] == "start" and self.no_repeat:
            cfg = {k: v_ for k, v_ in world.trials[obs[2]].config.items() if k != world.max_resource_attr}
            fz = _freeze(cfg)
            for t, f in self.failed.items():
                if f == fz:
                    v.append(("failure:failed-config-suggested-again", f"new trial {obs[2]} got the configuration of failed trial {t}"))
        return v

    def digest(self):
        return repr(sorted(self.failed.items()))


class _SilentSync(SyncRef):
    def after(self, world, ev, obs):
        super().after(world, ev, obs)
        return []


def build_generic(cfg):
    sched, info = scheds.make(cfg["kind"], mode=cfg["mode"], seed=cfg["seed"], R=cfg["R"], mra=cfg.get("mra", True),
                              **cfg.get("kw", {}))
    sign = 1.0 if cfg["mode"] == "min" else -1.0
    T = cfg["T"]
    tab = table(T, cfg["R"], sign, two=info["metrics"] is not None)
    spec = dict(W=cfg["W"], T=T, R=cfg["R"], table=tab, brackets=0, max_resource_attr=info["mra"], fail_budget=cfg["F"],
                metrics=info["metrics"])
    if cfg["kind"] == "hb-cost":
        spec["cost"] = c04.cost_table(T, cfg["R"], 0)
    oracles = []
    if cfg["kind"] == "shb" and "bracket_rungs" not in cfg.get("kw", {}):
        # bracket bookkeeping only (not judged here): tells whether a rung has more slots than the previous one had survivors
        oracles.append(_SilentSync([[(3, 1), (2, 2), (1, cfg["R"])], [(2, 2), (1, cfg["R"])]], cfg["mode"], mra=info["mra"]))
    return World(sched, spec, oracles + [FailureContainment(no_repeat=cfg["kind"] not in ("pbt", "dehb"))])


def build_a(cfg):
    if cfg["src"] == "c03":
        w = c03.build_world(cfg["cfg"])
    elif cfg["src"] == "c04":
        w = c04.build_world(cfg["cfg"])
    elif cfg["src"] == "c05":
        w = c05.build_world(cfg["cfg"])
    else:
        return build_generic(cfg["cfg"])
    w.oracles.append(FailureContainment())
    return w


def task_a(cfg):
    inner = cfg["cfg"]
    ctx = {"c03": c03.ctx_of, "c04": c04.ctx_of, "c05": c05.ctx_of}.get(cfg["src"], lambda c: f"{c['kind']}/W{c['W']}")(inner)
    return explore(lambda: build_a(cfg), PROP, {"src": cfg["src"], "cfg": inner}, max_states=cfg.get("max_states"), ctx=ctx)


# ----------------------------------------------------------------------------- Engine B part

def build_factory_b(cfg):
    def build(chooser, log):
        from syne_tune import Tuner, StoppingCriterion
        R = cfg["R"]
        sched, info = scheds.make(cfg["kind"], mode="min", seed=cfg["seed"], R=R, mra=cfg.get("mra", True))
        tunerx.wrap_scheduler(sched, log)
        R_job = R + 2 if cfg["kind"] == "pbt" else R
        spec = ScriptSpec(table(8, R_job, 1.0, two=info["metrics"] is not None), R_job, metrics=info["metrics"],
                          max_resource_attr=info["mra"], checkpointing=True,
                          extra=(lambda t, level, run: {"cost": 1.0 + 0.5 * level}) if cfg["kind"] == "hb-cost" else None)
        backend = ScriptedBackend(chooser, spec, cfg["W"], profile=cfg["profile"], fault_budget=cfg["F"],
                                  faults=("crash", "ext_stop"), log=log, late_results=False)
        rec = tunerx.make_recorder_callback(log, loop_cap=cfg.get("loop_cap", 150))
        tuner = Tuner(trial_backend=backend, scheduler=sched, stop_criterion=StoppingCriterion(**cfg["stop"]),
                      n_workers=cfg["W"], sleep_time=0, callbacks=[rec], save_tuner=False, suffix_tuner_name=False,
                      tuner_name="verif-c13", max_failures=cfg["max_failures"], wait_trial_completion_when_stopping=cfg.get("wait", False))
        return dict(tuner=tuner, backend=backend, scheduler=sched)
    return build


def check_b(cfg):
    def check(ex):
        allow = ("LoopCap",)
        vs = [kv for kv in monitors.lifecycle(ex, cfg["W"], allow_exc=allow + ("ValueError",))]
        n_failed_seen = sum(1 for e in ex.log if e[0] == "on_trial_error" and _is_crash(ex.log, e[1]))
        crashed = [e[1] for e in ex.log if e[0] == "crash"]
        n_err_calls = {}
        for e in ex.log:
            if e[0] == "on_trial_error":
                n_err_calls[e[1]] = n_err_calls.get(e[1], 0) + 1
        for t, n in n_err_calls.items():
            if n > 1:
                vs.append(("failure:notified-more-than-once", f"on_trial_error called {n} times for trial {t}"))
        ts = ex.tuner.tuning_status
        n_failed_status = ts.num_trials_failed if ts is not None else 0
        if ex.exc is not None and ex.exc[0] == "ValueError" and " failed" in ex.exc[2]:
            if n_failed_status <= cfg["max_failures"]:
                vs.append(("failure:raised-below-limit", f"run() raised '{ex.exc[2]}' with {n_failed_status} failed trials, max_failures={cfg['max_failures']}"))
            named = [int(tok) for tok in ex.exc[2].replace("-", " ").split() if tok.isdigit()]
            if not named or named[0] not in crashed:
                vs.append(("failure:error-names-wrong-trial", f"run() raised '{ex.exc[2]}', failed trials were {crashed}"))
        elif ex.exc is not None and ex.exc[0] == "ValueError" and "no metrics got observed" in ex.exc[2]:
            pass
        elif ex.exc is not None and ex.exc[0] not in allow:
            vs.append((f"exc:{ex.exc[0]}@{ex.exc[1]}", f"{ex.exc[0]} escaped Tuner.run at {ex.exc[1]}: {ex.exc[2]}"))
        elif ex.exc is None and n_failed_status > cfg["max_failures"]:
            vs.append(("failure:limit-exceeded-silently", f"{n_failed_status} trials failed (max_failures={cfg['max_failures']}) but run() returned normally"))
        ex.n_failed = n_failed_status
        return vs
    return check


def _is_crash(log, t):
    return any(e[0] == "crash" and e[1] == t for e in log)


def ctx_b(cfg):
    return f"tuner/{cfg['kind']}/W{cfg['W']}/maxfail{cfg['max_failures']}"


def label_b(cfg):
    d = {k: cfg[k] for k in sorted(cfg) if k != "profile"}
    d["profile"] = tunerx.profile_name(cfg["profile"])
    return d


def task_b(cfg):
    return tunerx.explore(build_factory_b(cfg), check_b(cfg), PROP, label_b(cfg), bound=cfg["k"], max_exec=cfg.get("max_exec"),
                          loop_cap=cfg.get("loop_cap", 150), ctx=ctx_b(cfg),
                          state_of=lambda ex: [(getattr(ex, "n_failed", 0), ex.exc[0] if ex.exc else None, len(ex.points))])


def task(t):
    kind, cfg = t
    return task_a(cfg) if kind == "A" else task_b(cfg)


def configs(tier, seed):
    out = []
    F_list = (1,) if tier == "quick" else (1, 2)
    for src, mod in (("c03", c03), ("c04", c04), ("c05", c05)):
        base = mod.configs(tier, seed)
        step = 6 if tier == "quick" else 4
        for i, c in enumerate(base):
            if i % step != (seed % step):
                continue
            if src == "c04" and c["type"] == "pasha" and c["brackets"] > 1:
                continue  # PASHA with several brackets raises on the first reports (known finding under C04)
            for F in F_list:
                c2 = dict(c)
                c2["F"] = F
                if src != "c05":
                    c2["T"] = min(c2["T"], 3)
                    c2["perms"] = {k: tuple(x for x in v if x < c2["T"]) for k, v in c2["perms"].items()}
                c2["max_states"] = 2500 if tier == "quick" else 6000
                out.append(("A", dict(src=src, cfg=c2, max_states=c2["max_states"])))
    gkinds = ["fifo-random", "fifo-grid", "fifo-bo", "pbt", "dehb", "median", "moasha", "hb-rush-prom", "hb-rush-stop", "hb-cost"]
    for ki, kind in enumerate(gkinds):
        for W in (2, 3):
            if tier == "quick" and W == 3:
                continue
            for F in F_list:
                out.append(("A", dict(src="generic", max_states=2500 if tier == "quick" else 6000,
                                      cfg=dict(kind=kind, mode="min" if ki % 2 else "max", seed=seed, R=3, W=W, T=4, F=F))))
    # GP-based searchers in their random phase (state updates are real)
    for kind, kw in (("hb-stopping", dict(searcher="bayesopt")), ("hb-promotion", dict(searcher="bayesopt")),
                     ("hb-promotion", dict(searcher="hypertune")), ("shb", dict(searcher="bayesopt"))):
        so = {"debug_log": False, "num_init_random": 10 ** 6}
        kw = dict(kw, search_options=so)
        for F in F_list:
            out.append(("A", dict(src="generic", max_states=2000 if tier == "quick" else 6000,
                                  cfg=dict(kind=kind, mode="min", seed=seed, R=4, W=2, T=3, F=F, kw=kw))))
    # GP searchers past their random phase (fitted surrogate, tiny optimiser settings) on a space of 4 configurations, with and
    # without allow_duplicates: the configuration of a trial that failed *after* it had reported stays excluded
    for kind in ("hb-stopping", "hb-promotion"):
        for dup in (True, False):
            so = {"debug_log": False, "num_init_random": 1, "opt_nstarts": 1, "opt_maxiter": 3, "num_init_candidates": 6,
                  "allow_duplicates": dup}
            out.append(("A", dict(src="generic", max_states=250 if tier == "quick" else 1200,
                                  cfg=dict(kind=kind, mode="min", seed=seed, R=3, W=2, T=5, F=1,
                                           kw=dict(searcher="bayesopt", search_options=so, int_space=4, points_to_evaluate=[])))))
    # Engine B
    bk = ["fifo-random", "hb-stopping", "hb-promotion", "shb", "dehb", "pbt", "median", "hb-pasha"]
    for ki, kind in enumerate(bk):
        for mf in (0, 1, 3):
            for W in (1, 2):
                for pi, prof in enumerate(tunerx.PROFILES):
                    if (pi + ki + mf + W + seed) % (8 if tier == "quick" else 2) != 0:
                        continue
                    out.append(("B", dict(kind=kind, W=W, R=3, seed=seed, profile=prof, F=2, max_failures=mf, mra=(pi + mf) % 3 != 0,
                                          stop={"max_num_trials_started": 5}, wait=(pi % 2 == 0), k=2 if tier == "quick" else 3,
                                          max_exec=400 if tier == "quick" else 6000)))
    # long runs with failures: beyond the first bracket of the synchronous schedulers, full PBT population
    for kind in ("shb", "dehb", "pbt", "hb-promotion"):
        for prof in (tunerx.PROFILES[0], tunerx.PROFILES[7]):
            out.append(("B", dict(kind=kind, W=2, R=3, seed=seed, profile=prof, F=2, max_failures=3, mra=True,
                                  stop={"max_num_trials_started": 10}, wait=True, k=2, loop_cap=400,
                                  max_exec=500 if tier == "quick" else 4000)))
    return out


def run(tier, seed):
    res = Result()
    cfgs = configs(tier, seed)
    na = nb = 0
    for (kind, _), (cov, viols) in zip(cfgs, pmap(task, cfgs)):
        if kind == "A":
            na += 1
            cov.c["evaluations"] = cov.c.get("transitions", 0)
            cov.c["distinct_nontrivial"] = cov.c.get("states", 0)
        else:
            nb += 1
        res.cov.merge(cov)
        res.violations.extend(viols)
    res.rule = ("(A) scheduler level: BFS over event histories incl. fail(t) at every point of a running trial's life with failure "
                f"budget F, on the C03/C04/C05 worlds (their reference oracles keep judging the other trials' decisions) and on "
                "PBT/DEHB/median/MOASHA/RUSH/cost/FIFO and GP-searcher schedulers; oracle adds: no exception, other trials' rung "
                "entries / pending evaluations / observations / pending bracket slots unchanged by on_trial_error, failed trial never "
                "resumed nor its configuration re-suggested. (B) tuning loop: every placement of <=2 crashes / external stops (as "
                "deviations among the environment answers) x max_failures in {0,1,3}: one on_trial_error per failure, run carries on "
                "below the limit and raises an error naming a failed trial above it. evaluations = transitions (A) + executions (B); "
                "distinct_nontrivial = distinct states (A) + distinct scheduler-visible traces (B).")
    res.bounds = {"configs_A": na, "configs_B": nb, "tier": tier}
    res.assumptions = list(env.ASSUMPTIONS)
    return res


def replay(data):
    out = []
    if data.get("engine") == "schedx":
        cfg = data["cfg"]
        w = build_a(cfg)
        for ev in [tuple(e) for e in data["history"]]:
            obs, vs = w.step(ev)
            if obs[0] == "EXC":
                out.append(Violation(PROP, f"exc:{obs[1]}@{obs[2]}", obs[3]))
            for k, what in vs:
                out.append(Violation(PROP, k, what))
    else:
        cfg = dict(data["cfg"])
        b, r, l = cfg["profile"].split("/")
        cfg["profile"] = dict(burst=b == "burst", rr=r == "rr", lag=l == "lag")
        ex = tunerx.run_tuner(build_factory_b(cfg), tunerx.Chooser(data["choices"]), cfg.get("loop_cap", 150))
        tunerx.clean_scratch()
        out = [Violation(PROP, k, w) for k, w in check_b(cfg)(ex)]
    return out
