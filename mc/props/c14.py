"""C14 — multi-fidelity surrogate data: each observation once, only live pending entries."""
from .. import env
from ..core import Result, pmap, Violation
from ..schedx import World, explore, Oracle, RUN, DONE
from ..world import table_from_perms, all_perms, rotate
from ..refs.rungs import rung_levels
from .c03 import RUNG_SYSTEMS

LEVEL = "model_checking"
PROP = "C14"


def make_scheduler(cfg):
    from syne_tune.config_space import uniform, randint
    rs = RUNG_SYSTEMS[cfg["rs"]]
    so = {"debug_log": False, "num_init_random": 10 ** 6}
    space = {"a": uniform(0, 1), "b": randint(0, 9)}
    if cfg["sched"] == "shb":
        from syne_tune.optimizer.schedulers.synchronous import SynchronousHyperbandScheduler
        space["epochs"] = rs["max_t"]
        lv = rung_levels(**rs) + [rs["max_t"]]
        br = [[(len(lv) - i, l) for i, l in enumerate(lv)][b:] for b in range(cfg.get("nbr", 1))]
        s = SynchronousHyperbandScheduler(space, br, metric="m", mode=cfg["mode"], resource_attr="epoch", max_resource_attr="epochs",
                                          searcher="bayesopt", searcher_data=cfg["data"], random_seed=cfg["seed"], search_options=so)
        return s
    from syne_tune.optimizer.schedulers import HyperbandScheduler
    kw = dict(searcher=cfg["searcher"], type=cfg["type"], metric="m", mode=cfg["mode"], resource_attr="epoch",
              brackets=cfg["brackets"], searcher_data=cfg["data"], register_pending_myopic=cfg["myopic"],
              random_seed=cfg["seed"], search_options=so)
    if cfg.get("use_mra"):
        space["epochs"] = rs["max_t"]
        kw["max_resource_attr"] = "epochs"
    else:
        kw["max_t"] = rs["max_t"]
    if "levels" in rs:
        kw["rung_levels"] = list(rs["levels"])
    elif "rf" in rs:
        kw.update(grace_period=rs["grace"], reduction_factor=rs["rf"])
    else:
        kw.update(grace_period=rs["grace"], reduction_factor=None, rung_increment=rs["inc"])
    s = HyperbandScheduler(space, **kw)
    s.set_time_keeper(env.ConstTimeKeeper())
    return s


class SurrogateData(Oracle):
    def __init__(self, cfg, levels, max_t):
        self.cfg = cfg
        self.levels = levels
        self.max_t = max_t
        self.first = {}      # trial -> {level: first reported value}
        self.latest = {}     # trial -> latest reported level in first-report order
        self.own_ms = {}     # trial -> set of own milestones reached
        self.bracket = {}
        self._b = 0

    def before(self, world, ev):
        if ev[0] == "S":
            self._b = ev[1] or 0

    def after(self, world, ev, obs):
        cfg = self.cfg
        if obs[0] == "suggest" and obs[1] == "start":
            self.bracket[obs[2]] = self._b
            self.first[obs[2]] = {}
            self.own_ms[obs[2]] = set()
        if obs[0] == "report":
            _, t, r, d = obs
            if r not in self.first[t]:
                self.first[t][r] = world.last_res[t][world.metric]
                self.latest[t] = r
            own = self.levels[self.bracket.get(t, 0):] + [self.max_t]
            if r in own:
                self.own_ms[t].add(r)
        if obs[0] == "suggest" and obs[1] == "over_T":
            return []  # horizon cut: the trial was never started by the driver
        try:
            state = world.s.searcher.state_transformer.state
        except AttributeError:
            return []
        v = []
        sign_map = (lambda x: 1.0 - x) if cfg["mode"] == "max" else (lambda x: x)
        failed = set(getattr(state, "failed_trials", []))
        # observations
        seen_ids = set()
        for te in state.trials_evaluations:
            t = int(te.trial_id)
            if t in seen_ids:
                v.append(("data:trial-twice", f"trial {t} has two observation records"))
            seen_ids.add(t)
            obsd = te.metrics.get("target", {})
            if not isinstance(obsd, dict):
                v.append(("data:not-per-level", f"trial {t}: observations not keyed by resource level"))
                continue
            got = {int(k): val for k, val in obsd.items()}
            exp_levels = self._expected_levels(t)
            if set(got) != exp_levels:
                extra = sorted(set(got) - exp_levels)
                missing = sorted(exp_levels - set(got))
                kind = "extra" if extra else "missing"
                if extra and not missing and extra == [self.latest.get(t)] and world.status.get(t) == DONE:
                    kind = "extra:final-result-of-a-completed-trial"   # on_trial_complete hands the last result to the searcher
                v.append((f"data:levels-{kind}:{cfg['data']}", f"trial {t} ({cfg['data']}): observed levels {sorted(got)}, policy selects {sorted(exp_levels)} "
                                                              f"of reported {sorted(self.first.get(t, {}))}"))
                continue
            for lv, val in got.items():
                want = sign_map(self.first[t][lv])
                if abs(val - want) > 1e-12 * max(1.0, abs(want)):
                    v.append(("data:value", f"trial {t} level {lv}: surrogate holds {val}, the trial first reported {self.first[t][lv]} (mapped {want})"))
        for t in self.first:
            if t not in seen_ids and self._expected_levels(t):
                v.append((f"data:levels-missing:{cfg['data']}", f"trial {t}: no observations stored, policy selects {sorted(self._expected_levels(t))}"))
        # pending
        for p in state.pending_evaluations:
            t = int(p.trial_id)
            r = p.resource
            if world.status.get(t) != RUN:
                v.append((f"pending:trial-not-running:{world.status.get(t)}", f"pending evaluation ({t},{r}) although trial {t} is {world.status.get(t)}"))
            else:
                for te in state.trials_evaluations:
                    if int(te.trial_id) == t and isinstance(te.metrics.get("target"), dict) and str(r) in te.metrics["target"]:
                        v.append(("pending:already-observed", f"pending evaluation ({t},{r}) is already observed"))
        out, seen = [], set()
        for k, m in v:
            if k not in seen:
                seen.add(k)
                out.append((k, m))
        return out

    def _expected_levels(self, t):
        rep = set(self.first.get(t, {}))
        data = self.cfg["data"]
        if data == "all":
            return rep
        rungs = set(self.levels) | {self.max_t}
        if data == "rungs":
            return rep & rungs
        # rungs_and_last
        out = rep & self.own_ms.get(t, set())
        if t in self.latest:
            out = out | {self.latest[t]}
        return out

    def digest(self):
        return repr((sorted((t, sorted(d.items())) for t, d in self.first.items()), sorted(self.latest.items())))


def build_world(cfg):
    rs = RUNG_SYSTEMS[cfg["rs"]]
    levels = rung_levels(**rs)
    max_t = rs["max_t"]
    s = make_scheduler(cfg)
    sign = 1.0 if cfg["mode"] == "min" else -1.0
    perms = {int(k): tuple(v) for k, v in cfg["perms"].items()}
    table = table_from_perms(cfg["T"], max_t, perms, sign, zero_rank=cfg.get("zero_rank"))
    if cfg["mode"] == "max":
        table = [[0.5 + 0.01 * x for x in row] for row in table]
    nb = 1 if cfg["sched"] == "shb" else min(cfg["brackets"], len(levels) + 1)
    mra = "epochs" if (cfg.get("use_mra") or cfg["sched"] == "shb") else None
    # 'script' < max_t: the training script ends by itself (the trial completes after a CONTINUE decision)
    spec = dict(W=cfg["W"], T=cfg["T"], R=cfg.get("script", max_t), table=table, brackets=nb if nb > 1 else 0, max_resource_attr=mra,
                scratch=cfg.get("scratch", False), rerun_eps=1e-3, fail_budget=cfg.get("F", 0))
    return World(s, spec, [SurrogateData(cfg, levels, max_t)])


def ctx_of(cfg):
    if cfg["sched"] == "shb":
        return f"shb/bayesopt/{cfg['data']}"
    return f"{cfg['type']}/{cfg['searcher']}/{cfg['data']}/{'myopic' if cfg['myopic'] else 'full'}/b{cfg['brackets']}"


def label(cfg):
    return {k: cfg[k] for k in sorted(cfg)}


def task(cfg):
    return explore(lambda: build_world(cfg), PROP, label(cfg), max_states=cfg.get("max_states"), ctx=ctx_of(cfg))


def configs(tier, seed):
    out = []
    i = 0
    T = 3
    for typ in ("stopping", "promotion"):
        for searcher in ("bayesopt", "hypertune"):
            for data in ("rungs", "all", "rungs_and_last"):
                for myopic in (False, True):
                    for brackets in (1, 2):
                        if data == "rungs_and_last" and brackets > 1:
                            continue
                        if searcher == "hypertune" and data == "rungs_and_last":
                            continue
                        for scratch in (False, True):
                            if scratch and typ == "stopping":
                                continue
                            for mode in ("min", "max"):
                                i += 1
                                if tier == "quick" and (i + seed) % 3 != 0:
                                    continue
                                rs_name = "g1rf2m4" if i % 2 else "lv125m6"
                                if tier == "quick":
                                    rs_name = "g1rf2m4"
                                levels = rung_levels(**RUNG_SYSTEMS[rs_name])
                                Tc = T if (typ == "promotion" and brackets == 1) or tier == "thorough" else 2
                                p1 = rotate(all_perms(Tc), seed + i)[0]
                                out.append(dict(sched="hb", type=typ, searcher=searcher, data=data, myopic=myopic, brackets=brackets,
                                                scratch=scratch, mode=mode, rs=rs_name, T=Tc, W=2, F=1, seed=seed,
                                                use_mra=(typ == "promotion" and i % 2 == 0), perms={str(levels[0]): p1},
                                                max_states=1500 if tier == "quick" else 8000))
    # three brackets over a shared rung system with three levels: a paused trial is promoted while a bracket is sampled whose
    # own first milestone lies above the trial's next rung (pending evaluations are registered for the level it really runs to)
    for data in ("rungs", "all"):
        for myopic in (False, True):
            if myopic and data == "rungs":
                continue
            for mode in ("min", "max") if tier == "thorough" else ("min",):
                out.append(dict(sched="hb", type="promotion", searcher="bayesopt", data=data, myopic=myopic, brackets=3,
                                scratch=False, mode=mode, rs="lv125m6", T=3, W=2, F=0, seed=seed, use_mra=(data == "all"),
                                perms={"1": (1, 0, 2)}, max_states=2500 if tier == "quick" else 8000))
    # grace period 2 and a script that ends before the first rung level: the trial completes without the searcher ever having
    # been updated for it (its pending evaluation at the first milestone must go all the same)
    for typ in ("stopping", "promotion"):
        for data in ("rungs", "all"):
            for script in (1, 3):
                out.append(dict(sched="hb", type=typ, searcher="bayesopt", data=data, myopic=False, brackets=1, scratch=False,
                                mode="min", rs="g2rf2m8", T=3, W=2, F=0, seed=seed, use_mra=False, perms={"2": (1, 0, 2)},
                                script=script, max_states=1500 if tier == "quick" else 6000))
    # long single-worker histories (several promotions per trial)
    for typ in ("stopping", "promotion"):
        for data in ("rungs", "all", "rungs_and_last"):
            for scratch in (False, True):
                if scratch and typ == "stopping":
                    continue
                out.append(dict(sched="hb", type=typ, searcher="bayesopt", data=data, myopic=False, brackets=1, scratch=scratch,
                                mode="min", rs="lv125m6", T=6, W=1, F=1, seed=seed, use_mra=(typ == "promotion" and not scratch),
                                perms={"1": (2, 0, 4, 1, 5, 3)}, max_states=1500 if tier == "quick" else 8000))
    for data in ("rungs", "all"):
        for mode in ("min", "max"):
            out.append(dict(sched="shb", data=data, mode=mode, rs="g1rf2m4", T=4, W=2, F=1, seed=seed, perms={"1": (0, 1, 2, 3)},
                            scratch=(mode == "max"), max_states=1500 if tier == "quick" else 8000))
    # synchronous Hyperband with several brackets: trials of a later bracket report levels below their first rung level, which
    # the 'all' policy selects like any other (policy 'rungs' is left to the single-bracket worlds: which levels count as rung
    # levels for a trial of a later bracket is not fixed by the property)
    for mode in ("min", "max"):
        for W in (1, 2):
            out.append(dict(sched="shb", data="all", mode=mode, rs="g1rf2m4", T=6, W=W, F=0, seed=seed, perms={"1": (3, 0, 5, 1, 4, 2)},
                            nbr=2 + (W == 1 and mode == "min"), scratch=(mode == "max"), max_states=1500 if tier == "quick" else 8000))
    return out


def run(tier, seed):
    res = Result()
    cfgs = configs(tier, seed)
    for cov, viols in pmap(task, cfgs):
        res.cov.merge(cov)
        res.violations.extend(viols)
    res.rule = ("BFS over event histories {suggest(bracket), report(t), fail(t)} of the real HyperbandScheduler (stopping / promotion) "
                "and SynchronousHyperbandScheduler with GP-based searchers (bayesopt, hypertune; random phase only so that state updates "
                "are real but no model is fitted) for searcher_data x register_pending_myopic x brackets x checkpointing on/off "
                "(re-reported levels carry +1e-3) x mode; invariant after every event on searcher.state_transformer.state: observed "
                "levels == policy-selected subset of first reports, values == first report (1-x for max), pending entries only for "
                "running trials at unobserved levels.")
    res.bounds = {"configs": len(cfgs), "tier": tier}
    res.assumptions = list(env.ASSUMPTIONS) + ["num_init_random huge: no surrogate fit, data bookkeeping is exercised for real",
                                               "metric values in (0,1): mode 'max' uses the documented default map_reward 1 - x"]
    return res


def replay(data):
    cfg = data["cfg"]
    w = build_world(cfg)
    out = []
    for ev in [tuple(e) for e in data["history"]]:
        obs, vs = w.step(ev)
        if obs[0] == "EXC":
            out.append(Violation(PROP, f"exc:{obs[1]}@{obs[2]}", obs[3]))
        for k, what in vs:
            out.append(Violation(PROP, k, what))
    return out
