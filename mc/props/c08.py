"""C08 — GP posterior, likelihood and incremental updates equal the dense definition.

Bounded-exhaustive enumeration (no sampling) of a finite lattice of (model configuration, data set) cases and of
operation sequences over IncrementalUpdateGPPosteriorState; every element is compared with the independent dense
reference of mc.c08_dense under the a-priori rounding bounds of mc.c08_tol.  See `RULE` for the lattice.
"""
import itertools
import math
import os

import numpy as np

from .. import env
from ..core import Result, pmap
from .. import c08_dense as dn
from .. import c08_tol as tl
from .. import c08_impl as im
from .. import c08_check as ck
from ..c08_check import Ctx, RefCase, compare

LEVEL = "exploration"
PROP = "C08"

TARGET_VALS = (-1.0, 0.3, 2.0)
IB = (1e-3, 1.0, 30.0)           # inverse bandwidth levels  (box [1e-4, 100], init 1)
CS = (1e-2, 1.0, 50.0)           # covariance scale levels   (box [1e-3, 1e3], init 1)
NOISE = (1e-6, 1e-3, 1.0)        # noise variance levels     (box [1e-9, 1e6], init 1e-3)
WARP = (0.25, 1.0, 4.0)          # warping exponents         (box [0.25, 4], init 1) — the true corners
AL = (1e-3, 1.0, 50.0)           # exp-decay alpha           (box [1e-6, 250], init 1)
ML = (1e-2, 0.5, 10.0)           # exp-decay mean_lam        (box [1e-4, 50], init .5)
GA = (1e-3, 0.5, 0.999)          # exp-decay gamma           (box [1e-4, 1], init .5)
DE = (0.0, 0.5, 1.0)             # exp-decay delta           (box [0, 1], init .5) — the true corners
# block C: the true corners of the three main boxes
IB_BOX = (1e-4, 100.0)
CS_BOX = (1e-3, 1e3)
NOISE_BOX = (1e-9, 1e6)
Z_VALS = (0.0, 1.0, -1.0)        # stubbed normal draws


# ------------------------------------------------------------------------------ kernel lattice

def M(d, ib, cs=None):
    return {"k": "matern52", "d": d, "inv_bw": [float(v) for v in ib], "cov_scale": 1.0 if cs is None else float(cs),
            "has_cov_scale": cs is not None}


def ard_vectors(d, tier):
    if d == 1:
        return []
    if tier == "quick":
        return [tuple([1.0] * d), tuple(IB[:d]), tuple(reversed(IB))[:d]]
    if d == 2:
        return list(itertools.product(IB, repeat=2))
    return [tuple([v] * 3) for v in IB] + list(itertools.permutations(IB))


def _bases(d):
    """Three base kernels for the warped family: init, mixed upper-ish, lower corner."""
    desc = tuple(reversed(IB))[:d]
    if d == 1:
        return [M(1, [1.0], 1.0), M(1, [30.0], 50.0), M(1, [1e-3], 1e-2)]
    return [M(d, [1.0] * d, 1.0), M(d, desc, 50.0), M(d, [1e-3] * d, 1e-2)]


def _warped(base, warps):
    return {"k": "warped", "base": base, "warps": warps}


def kernel_specs(d, tier):
    """[(family, kernel spec, [mean specs])] — the kernel part of the model lattice."""
    q = tier == "quick"
    std_means = [{"m": "scalar", "value": 0.5}, {"m": "zero"}]
    out = []
    for ib in IB:
        out.append(("m52", M(d, [ib]), std_means))
    for ib in IB:
        for cs in CS:
            out.append(("m52cs", M(d, [ib], cs), std_means))
    tup = [(1e-3, 50.0), (1.0, 1.0), (30.0, 1e-2)] if q else list(itertools.product(IB, CS))
    for ib, sc in tup:
        out.append(("tuple", {"k": "scaled", "base": M(d, [ib]), "scale": float(sc)}, std_means))
    V = ard_vectors(d, tier)
    for v in (V[1:] if q else V):
        out.append(("m52ard", M(d, v), std_means))
    for v in V:
        for cs in ((CS[0], CS[2]) if q else CS):
            out.append(("m52ardcs", M(d, v, cs), std_means))
    # warped
    B3 = _bases(d)
    full = (0, d)
    if q:
        ab_const = [(0.25, 4.0), (4.0, 0.25)]
        bases = B3[:2]
    else:
        ab_const = list(itertools.product(WARP, WARP))
        bases = B3
    for base in bases:
        for a, b in ab_const:
            out.append(("warped", _warped(base, [{"range": list(full), "a": [a] * d, "b": [b] * d}]), std_means))
    if d >= 2:
        cyc_a = [WARP[i % 3] for i in range(d)]
        cyc_b = [WARP[(i + 2) % 3] for i in range(d)]
        for base in (B3[1:2] if q else B3):
            out.append(("warped", _warped(base, [{"range": list(full), "a": cyc_a, "b": cyc_b}]), std_means))
        part = [(0.25, 4.0)] if q else [(0.25, 4.0), (4.0, 0.25), (1.0, 1.0)]
        for base in (B3[:1] if q else B3):
            for a, b in part:
                out.append(("warped-part", _warped(base, [{"range": [0, 1], "a": [a], "b": [b]}]), std_means))
        if d == 3:
            for base in (B3[:1] if q else B3):
                out.append(("warped-part", _warped(base, [{"range": [0, 1], "a": [0.25], "b": [4.0]},
                                                          {"range": [2, 3], "a": [4.0], "b": [0.25]}]), std_means))
        # two warping blocks on adjacent ranges, both away from the identity (every block must take effect)
        for base in (B3[:1] if q else B3):
            out.append(("warped-part", _warped(base, [{"range": [0, 1], "a": [4.0], "b": [0.25]},
                                                      {"range": [1, d], "a": [0.25] * (d - 1), "b": [4.0] * (d - 1)}]), std_means))
    # product
    if d >= 2:
        if q:
            combos = [(1.0, 1.0, (1.0, 1.0)), (1e-3, 30.0, (50.0, 50.0)), (30.0, 1e-3, (1e-2, 1.0)),
                      (30.0, 30.0, (1.0, 1.0))]
        else:
            combos = [(a, b, c) for a in IB for b in IB for c in ((1e-2, 1.0), (1.0, 1.0), (50.0, 50.0))]
        for ib1, ib2, (c1, c2) in combos:
            out.append(("product", {"k": "product", "k1": M(1, [ib1], c1), "k2": M(d - 1, [ib2], c2)}, std_means))
        if d == 3 and not q:
            for ib1 in IB:
                out.append(("product", {"k": "product", "k1": M(1, [ib1], 1.0), "k2": M(2, [1.0, 30.0], 1.0)},
                            std_means))
    # exponential-decay resource kernel as a plain kernel over (x, r), r = last coordinate
    if d >= 2:
        ed_means = [{"m": "expdecay"}, {"m": "zero"}]
        mx = {"m": "scalar", "value": 0.5}
        kxc = M(d - 1, [1.0], 1.0)

        def ED(al=AL[1], ml=ML[1], ga=GA[1], de=DE[1], kx=kxc, mx_=mx, fixed=False):
            return {"k": "expdecay", "kx": kx, "mx": mx_, "alpha": al, "mean_lam": ml, "gamma": ga, "delta": de,
                    "delta_fixed": fixed}

        if q:
            eds = [ED()]
            eds += [ED(al=v) for v in (AL[0], AL[2])] + [ED(ml=v) for v in (ML[0], ML[2])]
            eds += [ED(ga=v) for v in (GA[0], GA[2])] + [ED(de=v) for v in (DE[0], DE[2])]
            eds += [ED(de=0.0, fixed=True), ED(de=0.5, fixed=True), ED(mx_={"m": "zero"})]
        else:
            if d == 2:
                eds = [ED(al=a, ml=b, ga=c, de=e) for a in AL for b in ML for c in GA for e in DE]
            else:       # d = 3: centre + one parameter at a time (the full 3^4 product is enumerated for d = 2)
                eds = [ED()]
                eds += [ED(al=v) for v in (AL[0], AL[2])] + [ED(ml=v) for v in (ML[0], ML[2])]
                eds += [ED(ga=v) for v in (GA[0], GA[2])] + [ED(de=v) for v in (DE[0], DE[2])]
            eds += [ED(kx=M(d - 1, [ib], cs)) for ib in (IB[0], IB[2]) for cs in (CS[0], CS[2])]
            eds += [ED(de=v, fixed=True) for v in DE]
            eds += [ED(mx_={"m": "zero"}), ED(mx_={"m": "zero"}, de=1.0)]
        for e in eds:
            out.append(("expdecay", e, ed_means))
    return out


def full_data_specs(d, tier):
    """Block D / Q model configurations: a few general-position kernels."""
    desc = tuple(reversed(IB))[:d]
    std_means = [{"m": "scalar", "value": 0.5}, {"m": "zero"}]
    cyc_a = [WARP[i % 3] for i in range(d)]
    cyc_b = [WARP[(i + 2) % 3] for i in range(d)]
    out = [("m52ardcs" if d > 1 else "m52cs", M(d, desc if d > 1 else [30.0], 50.0), std_means),
           ("m52ardcs" if d > 1 else "m52cs", M(d, [1.0] * d if d > 1 else [1.0], 1.0), std_means),
           ("m52cs", M(d, [1e-3], 1e-2), std_means),
           ("warped", _warped(M(d, [1.0] * d if d > 1 else [1.0], 1.0), [{"range": [0, d], "a": cyc_a, "b": cyc_b}]),
            std_means),
           ("tuple", {"k": "scaled", "base": M(d, [1.0]), "scale": 50.0}, std_means)]
    return out


def corner_specs(d):
    std_means = [{"m": "scalar", "value": 0.5}]
    return [("m52cs-boxcorner", M(d, [ib], cs), std_means) for ib in IB_BOX for cs in CS_BOX]


# -------------------------------------------------------------------------------- data lattice

def sub_alphabet(d, size):
    """Documented sub-alphabets (alphabet indices): 6 points S_d = 4 grid points in general position + the
    near-duplicates of two of them; 4 points = {g0, near(g0), g1, g2}; 3 points = {g0, near(g0), g1};
    10 points (d=3 only) = S_3 + 4 more."""
    if d == 1:
        g = [(0.0,), (0.25,), (1.0,)]
        s6 = [ck.point_index(1, p) for p in g] + [ck.point_index(1, p, True) for p in g]
        s4 = [s6[0], s6[3], s6[1], s6[2]]
    elif d == 2:
        g = [(0.0, 0.0), (0.0, 0.25), (1.0, 0.25), (0.25, 1.0)]
        s6 = [ck.point_index(2, p) for p in g] + [ck.point_index(2, g[0], True), ck.point_index(2, g[2], True)]
        s4 = [s6[0], s6[4], s6[1], s6[2]]
    else:
        g = [(0.0, 0.0, 0.0), (0.0, 0.25, 1.0), (1.0, 0.0, 0.25), (0.25, 1.0, 1.0)]
        s6 = [ck.point_index(3, p) for p in g] + [ck.point_index(3, g[0], True), ck.point_index(3, g[3], True)]
        s4 = [s6[0], s6[4], s6[1], s6[2]]
    if size == 6:
        return s6
    if size == 4:
        return s4
    if size == 3:
        return s4[:3]
    if size == 10:
        assert d == 3
        more = [ck.point_index(3, (1.0, 1.0, 1.0)), ck.point_index(3, (0.25, 0.25, 0.25)),
                ck.point_index(3, (0.0, 0.25, 1.0), True), ck.point_index(3, (1.0, 1.0, 1.0), True)]
        return s6 + more
    raise ValueError(size)


def targets(n, all_vectors):
    """Target vectors in {-1,.3,2}^n: all 3^n, or the 6 cyclic patterns y_i = v[(s+i)%3], v[(s-i)%3]."""
    if all_vectors:
        return [list(t) for t in itertools.product(TARGET_VALS, repeat=n)]
    out = []
    for s in range(3):
        out.append([TARGET_VALS[(s + i) % 3] for i in range(n)])
    for s in range(3):
        y = [TARGET_VALS[(s - i) % 3] for i in range(n)]
        if y not in out:
            out.append(y)
    return out


def multisets(alpha_idx, n):
    return itertools.combinations_with_replacement(sorted(alpha_idx), n)


def n_multisets(k, n):
    return math.comb(k + n - 1, n)


# ------------------------------------------------------------------------------ group = one (noise, X)

def run_group(ctx, noise, idx, all_targets, means_used, joint_idx, replay_base, thin_other_means=False,
              count_keys=True):
    """All states for one training multiset: every (mean, target vector) as a single-column state, two fantasy
    states (m=2, m=3).  The first state gets the full battery (three test sets, variance bounds, NLML, joint
    covariance, textbook cross-check, GaussianProcessRegression path)."""
    n = len(idx)
    T = targets(n, all_targets)
    combos = [(k, j) for a, k in enumerate(means_used) for j in range(len(T))
              if a == 0 or not thin_other_means or j < 2]
    Y = np.array([T[j] for _, j in combos], dtype=float).T          # (n, n_combos)
    colmean = [k for k, _ in combos]
    rp = dict(replay_base, noise=noise, idx=list(idx), X=ctx.P[np.array(idx)].tolist(),
              all_targets=bool(all_targets), means_used=list(means_used), joint_idx=list(joint_idx),
              thin=bool(thin_other_means))
    try:
        rc = RefCase(ctx, idx, noise, Y, colmean)
    except Exception as e:  # noqa: BLE001  (reference failed: harness problem, not a finding)
        raise RuntimeError(f"reference failed for {rp}: {type(e).__name__}: {e}")
    ctx.cov.add("states")
    nontrivial = n >= 2 and count_keys
    if rc.singular:
        ctx.cov.outcome("excluded_numerically_singular")
        ctx.cov.add("excluded_numerically_singular_groups")
    else:
        ctx.cov.outcome("compared_mp_reference" if rc.mp else "compared_float_reference")
    tall = ctx.all_idx

    def state(k, cols):
        return ck.make_state(ctx, idx, k, Y[:, cols], noise)

    # ---- full battery on the first column
    c0 = 0
    k0 = colmean[c0]
    pat = ck._pat(ctx, idx, 1)
    try:
        st = state(k0, [c0])
    except Exception as e:  # noqa: BLE001
        ctx.V.add(f"exc/construct:{type(e).__name__}:{pat}", f"posterior state construction raised "
                  f"{type(e).__name__}: {e}", rp)
        return
    rc_use = rc
    jit = ck.detect_jitter(ctx, st, rc, noise, pat, rp)
    if jit is None:
        jit = 0.0          # violation recorded; the comparisons below say which outputs are affected
    if jit > 0.0:
        # compared against the reference with the same jitter added
        rc_use = RefCase(ctx, idx, noise + jit, Y, colmean)
    if nontrivial:
        for c, (k, j) in enumerate(combos):
            ctx.keys.add((noise, idx, k, j))
    if rc_use.singular:
        # sanity only: finite, floor <= var
        try:
            mu, var = st.predict(ctx.P[np.array(tall)])
            ctx.cov.add("evaluations")
            if not (np.all(np.isfinite(mu)) and np.all(np.asarray(var) >= ck.FLOOR)):
                ctx.V.add(f"predict/nonfinite-or-below-floor:{pat}", "non-finite mean or variance below the floor in a "
                          "numerically singular case", rp)
        except Exception as e:  # noqa: BLE001
            ctx.V.add(f"exc/predict:{type(e).__name__}:{pat}", f"predict raised {type(e).__name__}: {e}", rp)
        return
    ck.check_predict(ctx, st, rc_use, [c0], tall, pat, rp)
    ck.check_predict(ctx, st, rc_use, [c0], idx, pat, rp, kind="predict-at-train")
    single = (tall[(sum(idx) + n) % len(tall)],)
    ck.check_predict(ctx, st, rc_use, [c0], single, pat, rp, kind="predict-single")
    ck.check_nlml(ctx, st, rc_use, c0, pat, rp)
    ck.check_joint(ctx, st, rc_use, [c0], joint_idx, pat, rp)
    if jit == 0.0:
        # pure textbook formula (no sqrt safeguard), admissible gap = documented NUMERICAL_JITTER/2 * prior variance
        rct = RefCase(ctx, idx, noise, Y[:, [c0]], [k0], textbook=True)
        if rct.singular:
            ctx.cov.outcome("textbook_crosscheck_skipped_singular")
        else:
            try:
                mu, var = st.predict(ctx.P[np.array(tall)])
                r = rct.at(tall)
                compare(ctx, "textbook/mean", pat, mu, r["mean"], r["tol_mean"], rp)
                compare(ctx, "textbook/var", pat, var, np.maximum(r["var"], ck.FLOOR), r["tol_var"], rp,
                        alt=np.maximum(r["var_alt"], ck.FLOOR))
            except Exception:  # noqa: BLE001  (already reported above)
                pass
        ck.check_gpr(ctx, k0, noise, rc_use, c0, Y[:, c0], tall, pat, rp)
    # ---- light states: every other (mean, target) column
    for c in range(1, len(combos)):
        k = colmean[c]
        try:
            st = state(k, [c])
        except Exception as e:  # noqa: BLE001
            ctx.V.add(f"exc/construct:{type(e).__name__}:{pat}", f"{type(e).__name__}: {e}", rp)
            continue
        ck.check_predict(ctx, st, rc_use, [c], tall, pat, rp, prior_check=False)
        ck.check_nlml(ctx, st, rc_use, c, pat, rp)
    # ---- fantasy states: m columns = m target vectors sharing one covariance
    for m in (2, 3):
        k = means_used[m % len(means_used)]
        cols = [c for c, kk in enumerate(colmean) if kk == k][:m]
        if len(cols) < m:
            cols = (cols * m)[:m]
        patm = ck._pat(ctx, idx, m)
        try:
            st = state(k, cols)
        except Exception as e:  # noqa: BLE001
            ctx.V.add(f"exc/construct:{type(e).__name__}:{patm}", f"{type(e).__name__}: {e}", rp)
            continue
        if nontrivial:
            ctx.keys.add((noise, idx, k, "fantasy", m))
        ck.check_predict(ctx, st, rc_use, cols, tall, patm, rp, kind="fantasy-predict", prior_check=False)
        if m == 3:
            ck.check_joint(ctx, st, rc_use, cols, joint_idx[:4], patm, rp)
        # NLML is documented to be undefined for m > 1 (assertion) — not part of the property


# ------------------------------------------------------------------------------ operation sequences

def op_alphabet(ctx, xs, m, tier):
    """Operations applicable to a state with m columns."""
    ops = []
    ny = 2
    for x in xs:
        for s in range(ny):
            ops.append(("U", x, [TARGET_VALS[(s + j) % 3] for j in range(m)]))
    for x in xs:
        for s in range(3):
            ops.append(("S", x, [Z_VALS[s]] * m, None))
        if m > 1:
            ops.append(("S", x, [Z_VALS[(1 + j) % 3] for j in range(m)], [j == 0 for j in range(m)]))
    if m == 1:
        ops.append(("E", 2))
        ops.append(("E", 3))
    return ops


class Node:
    __slots__ = ("st", "idx", "Y", "m", "seq", "appended", "diag", "rc", "noise")


def _node_ref(ctx, nd, k, mirror=True):
    """Reference for a node.  mirror=False: the consistent dense definition (every diagonal entry = k(x,x) of forward()
    + noise).  mirror=True: rows appended by update()/sample_and_update() carry KernelFunction.diagonal() + noise on the
    diagonal, which is what cholesky_update uses; it exceeds the forward() value by ctx.dgap (<= 1e-9/2 * k(x,x))."""
    diag = nd.diag
    if mirror:
        diag = diag + np.array([ctx.dgap[i] if a else 0.0 for i, a in zip(nd.idx, nd.appended)])
    return RefCase(ctx, nd.idx, diag, nd.Y, [k] * nd.m)


def _probe_node(ctx, nd, rc, test_idx, pat, rp, record, out):
    cols = list(range(nd.m))
    ok = ck.check_predict(ctx, nd.st, rc, cols, test_idx, pat, rp, kind="incr-predict", record=record, pred=out[0])
    if nd.m == 1:
        ok &= ck.check_nlml(ctx, nd.st, rc, 0, pat, rp, kind="incr-nlml", record=record, val=out[1])
    return ok


def check_node(ctx, nd, k, test_idx, rp):
    """Incremental state == from-scratch dense reference on the same data.

    Compared first with the consistent definition; if that fails but the state equals the reference whose appended
    diagonal entries are diagonal()+noise, the difference is exactly the diagonal()-vs-forward() mismatch and is
    reported under its own key (incr/diagonal-vs-forward-gap)."""
    pat = f"{ctx.fam}:seq={nd.seq}:{ck.dup_pattern(ctx.d, nd.idx)}:{'m=1' if nd.m == 1 else 'm>1'}"
    ctx.cov.add("transitions")
    if len(nd.idx) >= 2 and ("S" in nd.seq or "E" in nd.seq):
        # data sets containing sampled targets / expanded fantasy columns do not occur in the from-scratch blocks
        ctx.keys.add(("Q", float(nd.diag[0]), k, tuple(nd.idx), tuple(np.round(nd.Y, 12).ravel())))
    strict = _node_ref(ctx, nd, k, mirror=False)
    nd.rc = strict
    if strict.singular:
        ctx.cov.outcome("excluded_numerically_singular")
        ctx.cov.add("excluded_numerically_singular_groups")
        return pat
    ctx.cov.outcome("compared_mp_reference" if strict.mp else "compared_float_reference")
    try:
        out = (nd.st.predict(ctx.P[np.array(test_idx)]),
               float(nd.st.neg_log_likelihood()) if nd.m == 1 else None)
    except Exception as e:  # noqa: BLE001
        ctx.V.add(f"exc/incr-predict:{type(e).__name__}:{pat}", f"predict / neg_log_likelihood on the updated state "
                  f"raised {type(e).__name__}: {e}", rp)
        return pat
    if _probe_node(ctx, nd, strict, test_idx, pat, rp, False, out):
        _probe_node(ctx, nd, strict, test_idx, pat, rp, True, out)        # counts + ratios
        return pat
    has_gap = any(a and ctx.dgap[i] > 0 for i, a in zip(nd.idx, nd.appended))
    mirror = _node_ref(ctx, nd, k, mirror=True) if has_gap else None
    if mirror is not None and not mirror.singular and _probe_node(ctx, nd, mirror, test_idx, pat, rp, False, out):
        nd.rc = mirror
        ctx.cov.outcome("incr_equals_scratch_only_with_diagonal_gap")
        r_s, r_m = strict.at(test_idx), mirror.at(test_idx)
        dm = float(np.max(np.abs(r_s["mean"] - r_m["mean"])))
        tm = float(np.max(r_s["tol_mean"]))
        ctx.V.add(f"incr/diagonal-vs-forward-gap:{ctx.fam}:{ck.dup_pattern(ctx.d, nd.idx)}",
                  f"state after {nd.seq} differs from the from-scratch posterior on the same data beyond the rounding "
                  f"bound (predictive mean by up to {dm:.3g}, bound {tm:.3g}) but equals the dense posterior whose "
                  f"appended diagonal entries are kernel.diagonal()+noise instead of kernel(x,x)+noise "
                  f"(difference {max(ctx.dgap[i] for i in nd.idx):.3g})", rp, sev=dm)
        return pat
    _probe_node(ctx, nd, strict, test_idx, pat, rp, True, out)
    return pat


def apply_op(ctx, nd, op, k, rp):
    """Returns the child node or None (violation recorded / clamped)."""
    ch = Node()
    ch.seq = nd.seq + op[0]
    ch.diag = nd.diag
    ch.noise = nd.noise
    ch.appended = nd.appended
    pat = f"{ctx.fam}:seq={ch.seq}:{ck.dup_pattern(ctx.d, nd.idx)}:{'m=1' if nd.m == 1 else 'm>1'}"
    try:
        if op[0] == "E":
            ch.st = nd.st.expand_fantasies(op[1])
            ch.idx, ch.m = nd.idx, op[1]
            ch.Y = np.repeat(nd.Y, op[1], axis=1)
            return ch
        x = op[1]
        feat = ctx.P[x].reshape(1, -1)
        if op[0] == "U":
            y = np.array(op[2], dtype=float).reshape(1, -1)
            ch.st = nd.st.update(feat, y)
        else:
            z = np.array(op[2], dtype=float)
            mask = None if op[3] is None else np.array(op[3], dtype=bool)
            stub = im.ConstNormal(z)
            y, ch.st = nd.st.sample_and_update(feat, mean_impute_mask=mask, random_state=stub)
            y = np.asarray(y, dtype=float).reshape(1, -1)
            # the drawn target = predictive mean + z * predictive std (noise-free, floored) of the *current* posterior
            ctx.cov.add("evaluations")
            if stub.calls != 1 or y.shape != (1, nd.m):
                ctx.V.add(f"sample_and_update/draw-protocol:{pat}", f"normal() called {stub.calls} times, target shape "
                          f"{y.shape}", rp)
                return None
            if not nd.rc.singular:
                r = nd.rc.at((x,))
                zz = z.copy()
                if mask is not None:
                    zz[mask] = 0.0
                refs = []
                for key in ("var", "var_alt"):
                    v = max(float(r[key][0]), ck.FLOOR)
                    tv = float(r["tol_var"][0])
                    sd = math.sqrt(v)
                    dsd = max(math.sqrt(v + tv) - sd, sd - math.sqrt(max(v - tv, ck.FLOOR)))
                    refs.append((r["mean"][0] + zz * sd,
                                 r["tol_mean"][0] + np.abs(zz) * dsd + 4 * tl.U * (np.abs(r["mean"][0]) + np.abs(zz) * sd)))
                compare(ctx, "sample_and_update/target", pat, y[0], refs[0][0], np.maximum(refs[0][1], refs[1][1]), rp,
                        alt=refs[1][0])
        ch.idx = nd.idx + (x,)
        ch.m = nd.m
        ch.Y = np.vstack([nd.Y, y])
        ch.diag = np.append(nd.diag, nd.noise)
        ch.appended = nd.appended + (True,)
        ctx.cov.add("evaluations")
        L = np.asarray(ch.st.chol_fact)
        if L.shape != (len(ch.idx), len(ch.idx)) or np.asarray(ch.st.pred_mat).shape != (len(ch.idx), ch.m):
            ctx.V.add(f"incr/state-shape:{pat}", f"chol_fact {L.shape}, pred_mat {np.asarray(ch.st.pred_mat).shape}", rp)
            return None
        if L[-1, -1] ** 2 <= 4.0 * ck.MIN_CHOL_DIAG ** 2:
            # documented clamp of the new pivot at MIN_CHOLESKY_DIAGONAL_VALUE^2.  Admissible only if the exact Schur
            # complement s = 1/(A^-1)_nn of the extended reference matrix is zero within its rounding bound.
            rcc = _node_ref(ctx, ch, k)
            ainv = rcc.gp.Ainv
            s_ref = 1.0 / ainv[-1, -1]
            v = np.abs(ainv[:, -1] / ainv[-1, -1])
            tol_s = rcc.B.amp * float(v @ rcc.B.E @ v)
            if s_ref - tol_s > 4.0 * ck.MIN_CHOL_DIAG ** 2:
                ctx.V.add(f"incr/pivot-clamped-unjustified:{pat}",
                          f"new Cholesky pivot clamped to {L[-1, -1] ** 2:.3g} although the exact Schur complement is "
                          f"{s_ref:.6g} (rounding bound {tol_s:.3g})", rp)
                return None
            ctx.cov.outcome("excluded_update_clamped_pivot")
            return None
        return ch
    except Exception as e:  # noqa: BLE001
        ctx.V.add(f"exc/{ {'U': 'update', 'S': 'sample_and_update', 'E': 'expand_fantasies'}[op[0]] }:"
                  f"{type(e).__name__}:{pat}", f"{type(e).__name__}: {e}", rp)
        return None


def run_tree(ctx, noise, k, idx0, m0, xs, depth, tier, test_idx, replay_base, only_seq=None):
    """Depth-first enumeration of all operation sequences of length <= depth from one initial state."""
    n0 = len(idx0)
    T = targets(n0, False)
    Y0 = np.array(T[:m0], dtype=float).T
    rp0 = dict(replay_base, noise=noise, k=k, idx0=list(idx0), m0=m0, xs=list(xs), depth=depth,
               test_idx=list(test_idx))
    root = Node()
    root.seq = ""
    try:
        root.st = ck.make_state(ctx, idx0, k, Y0, noise)
    except Exception as e:  # noqa: BLE001
        ctx.V.add(f"exc/construct:{type(e).__name__}:{ctx.fam}", f"{type(e).__name__}: {e}", rp0)
        return
    root.idx, root.Y, root.m = tuple(idx0), Y0, m0
    root.appended = tuple([False] * n0)
    root.diag = np.full(n0, noise)
    root.noise = noise      # updates use the state's original noise_variance (documented: jitter is not carried over)
    root.rc = RefCase(ctx, root.idx, root.diag, root.Y, [k] * m0)
    if not root.rc.singular:
        jit = ck.detect_jitter(ctx, root.st, root.rc, noise, f"{ctx.fam}:seq=:root", rp0)
        if jit is None:
            jit = 0.0
        if jit > 0:
            root.diag = np.full(n0, noise + jit)
            root.rc = RefCase(ctx, root.idx, root.diag, root.Y, [k] * m0)
    ctx.cov.add("states")

    def rec(nd, ops_done):
        if len(ops_done) >= depth:
            return
        for oi, op in enumerate(op_alphabet(ctx, xs, nd.m, tier)):
            path = ops_done + [oi]
            if only_seq is not None and path != only_seq[:len(path)]:
                continue
            rp = dict(rp0, ops=path, ops_text=[repr(o) for o in _ops_of(ctx, xs, root.m, path, tier)])
            ch = apply_op(ctx, nd, op, k, rp)
            if ch is None:
                continue
            check_node(ctx, ch, k, test_idx, rp)
            rec(ch, path)

    rec(root, [])


def _ops_of(ctx, xs, m0, path, tier):
    """Decode an index path into operations (m evolves along the path)."""
    out = []
    m = m0
    for oi in path:
        op = op_alphabet(ctx, xs, m, tier)[oi]
        out.append(op)
        if op[0] == "E":
            m = op[1]
    return out


# ----------------------------------------------------------------------------------- tasks

def _chunks(it, size):
    it = iter(it)
    while True:
        c = list(itertools.islice(it, size))
        if not c:
            return
        yield c


def data_plan(block, d, tier):
    """[(n, alphabet indices, all_targets, single_mean)] per block."""
    N = 2 * 3 ** d
    full = list(range(N))
    s6, s4 = sub_alphabet(d, 6), sub_alphabet(d, 4)
    if block == "P":
        if tier == "quick":
            return [(1, s4, True, False), (2, s4, False, False), (3, s4, False, False), (5, sub_alphabet(d, 3), False, True)]
        return [(1, s6, True, False), (2, s6, True, False), (3, s6, False, False), (5, s4, False, False)]
    if block == "C":
        return [(1, s4, True, True), (2, s4, True, True), (3, s4, False, True), (5, sub_alphabet(d, 3), False, True)]
    if block == "D":
        if tier == "quick":
            if d == 1:
                return [(1, full, True, False), (2, full, True, False), (3, full, False, True), (5, full, False, True)]
            return [(1, full, True, False), (2, full, False, True)]
        if d == 1:
            return [(1, full, True, False), (2, full, True, False), (3, full, True, False), (5, full, False, False)]
        if d == 2:
            return [(1, full, True, False), (2, full, True, False), (3, full, False, True), (5, s6 + [4, 8, 13, 17], False, True)]
        return [(1, full, True, False), (2, full, True, True), (3, full, False, True),
                (5, sub_alphabet(3, 10), False, True)]
    raise ValueError(block)


def make_tasks(tier):
    tasks = []
    for d in (1, 2, 3):
        # block P: every kernel configuration x all noise levels x sub-alphabet data
        for i, (fam, ks, means) in enumerate(kernel_specs(d, tier)):
            tasks.append(dict(block="P", d=d, spec=i, tier=tier, noises=list(NOISE), w=1.0))
        # block C: true box corners
        for i, _ in enumerate(corner_specs(d)):
            tasks.append(dict(block="C", d=d, spec=i, tier=tier, noises=list(NOISE_BOX), w=0.3))
        # block D: general-position kernels x complete data lattices
        if tier == "quick":
            dplan = [(0, noise) for noise in NOISE]
        else:
            dplan = [(0, NOISE[0]), (0, NOISE[1]), (0, NOISE[2]), (1, NOISE[0]), (1, NOISE[1]), (2, NOISE[0]),
                     (2, NOISE[2])]
        for i, noise in dplan:
            for pi, (n, alpha, allt, single) in enumerate(data_plan("D", d, tier)):
                if tier != "quick" and d == 3 and n == 3 and (i, noise) not in \
                        [(0, NOISE[0]), (0, NOISE[2]), (1, NOISE[1]), (2, NOISE[0])]:
                    continue        # the 27720 3-multisets over the full P_3: 4 of the 7 (kernel, noise) pairs
                total = n_multisets(len(alpha), n)
                size = 1200 if n <= 2 else 700
                nch = max(1, math.ceil(total / size))
                for c in range(nch):
                    tasks.append(dict(block="D", d=d, spec=i, tier=tier, noises=[noise], plan=pi, chunk=c,
                                      chunk_size=size, w=min(total, size) / 100.0))
        # block Q: operation sequences
        if tier == "quick":
            plan = {1: [(0, NOISE[0]), (0, NOISE[2]), (4, NOISE[0]), (4, NOISE[2]), (3, NOISE[1])],
                    2: [(0, NOISE[0]), (4, NOISE[2]), (3, NOISE[1])],
                    3: [(4, NOISE[0]), (0, NOISE[2])]}[d]
        elif d == 1:
            plan = [(i, noise) for i in (0, 1, 2, 3, 4) for noise in (NOISE[0], NOISE[2])] + [(0, NOISE[1]), (3, NOISE[1])]
        else:
            plan = [(0, NOISE[0]), (0, NOISE[2]), (1, NOISE[1]), (2, NOISE[0]), (3, NOISE[1]), (3, NOISE[0]),
                    (4, NOISE[0]), (4, NOISE[2])]
        s3 = sub_alphabet(d, 3)
        inits3 = [(s3[0],), (s3[0], s3[0]), (s3[0], s3[2])]
        inits = inits3 if (tier == "quick" or d > 1) else [tuple(c) for n0 in (1, 2) for c in multisets(s3, n0)]
        for i, noise in plan:
            for idx0 in inits:
                for m0 in (1, 3):
                    if m0 == 3 and tuple(idx0) not in inits3:
                        continue
                    tasks.append(dict(block="Q", d=d, spec=i, tier=tier, noises=[noise], idx0=list(idx0), m0=m0,
                                      w=20.0 if tier != "quick" else 8.0))
    tasks.sort(key=lambda t: -t["w"])
    return tasks


def _spec_of(t):
    if t["block"] == "P":
        return kernel_specs(t["d"], t["tier"])[t["spec"]]
    if t["block"] == "C":
        return corner_specs(t["d"])[t["spec"]]
    return full_data_specs(t["d"], t["tier"])[t["spec"]]


def q_params(d, tier):
    s4 = sub_alphabet(d, 4)
    xs = [s4[1], s4[3]] if tier == "quick" else [s4[0], s4[1], s4[3]]
    return xs, 3, sub_alphabet(d, 6)


def task(t):
    d, tier = t["d"], t["tier"]
    fam, ks, means = _spec_of(t)
    ctx = Ctx(d, fam, ks, means)
    base = dict(block=t["block"], d=d, tier=tier, spec=t["spec"], family=fam, kernel=ctx.ks, means=[m for m, _ in ctx.means])
    joint_idx = sub_alphabet(d, 6)
    if t["block"] in ("P", "C"):
        for noise in t["noises"]:
            for n, alpha, allt, single in data_plan(t["block"], d, tier):
                mu = [0] if single else list(range(len(means)))
                for idx in multisets(alpha, n):
                    run_group(ctx, noise, idx, allt, mu, joint_idx, base, tier == "quick")
    elif t["block"] == "D":
        n, alpha, allt, single = data_plan("D", d, tier)[t["plan"]]
        mu = [0] if single else list(range(len(means)))
        it = multisets(alpha, n)
        lo = t["chunk"] * t["chunk_size"]
        # every block-D kernel is also a block-P kernel: multisets inside P's sub-alphabet for this n are the same
        # (config, data) cases again and are not counted a second time in distinct_nontrivial
        p_alpha = {pn: set(pa) for pn, pa, _, _ in data_plan("P", d, tier)}.get(n, set())
        for idx in itertools.islice(it, lo, lo + t["chunk_size"]):
            run_group(ctx, t["noises"][0], idx, allt, mu, joint_idx, base, tier == "quick",
                      count_keys=not set(idx) <= p_alpha)
    else:
        xs, depth, test_idx = q_params(d, tier)
        run_tree(ctx, t["noises"][0], 0, tuple(t["idx0"]), t["m0"], xs, depth, tier, test_idx, base)
    cov, viols = ctx.finish()
    if t["block"] != "Q":
        cov.sample({"block": t["block"], "d": d, "family": fam, "kernel": ctx.ks, "noise": t["noises"][0]})
    else:
        cov.sample({"block": "Q", "d": d, "family": fam, "kernel": ctx.ks, "noise": t["noises"][0],
                    "initial_rows": ctx.P[np.array(t["idx0"])].tolist(), "m0": t["m0"]})
    return cov, viols


RULE = (
    "Point alphabet P_d = grid {0,.25,1}^d plus the near-duplicate of every grid point (each coordinate moved 1e-7 "
    "towards the cube interior), d in {1,2,3}; training sets = n-multisets over P_d or over a documented sub-alphabet "
    "(S_d: 6 points incl. two near-duplicates; 4-/3-point subsets of it; a 10-point set for d=3), n in {1,2,3,5}; target "
    "vectors in {-1,.3,2}^n (all 3^n for small n, else the 6 cyclic patterns), fantasy matrices with m=2,3 columns; "
    "test inputs: the whole alphabet P_d at once, the training set itself, one singleton; joint samples over S_d. "
    "Block P: every kernel configuration (Matern52 iso/ARD, with/without covariance scale, (kernel,scale) tuple form, "
    "warped full/partial range, product, exponential-decay resource kernel with its mean function; parameters at "
    "{lower, init, upper-ish} levels, ARD vectors: all 3^d for d=2, constants+permutations for d=3; exp-decay "
    "(alpha, mean_lam, gamma, delta): full 3^4 product for d=2, centre + one-at-a-time for d=3 and in quick) x noise "
    "{1e-6,1e-3,1} x mean {zero, scalar .5 | exp-decay mean} x all multisets over the sub-alphabets. "
    "Block C: true box corners inv_bw {1e-4,100} x cov_scale {1e-3,1e3} x noise {1e-9,1e6}. "
    "Block D: 3 general-position kernels x 7 (kernel, noise) pairs (quick: 1 kernel x 3 noise levels) x ALL multisets "
    "over the full alphabet P_d (quick: d=1 n<=5, d=2,3 n<=2; thorough: n<=5 for d=1, "
    "n<=3 for d=2,3 (d=3,n=3: 4 of the 7 pairs); n=5 over 10-point sub-alphabets for d=2,3). "
    "Block Q: all operation sequences of length <=3 over {update(x,y), sample_and_update(x) with the normal draw stubbed to "
    "0,+1,-1 (and a mixed draw with mean_impute_mask), expand_fantasies(2|3)} from initial states with n0 in {1,2}, "
    "m0 in {1,3}; x from 3 (quick: 2) alphabet points that duplicate / nearly duplicate / differ from the initial rows, "
    "y from 2 cyclic target patterns. "
    "Oracle: independent dense reference (explicit Matern-5/2 by pairwise differences, K+sigma^2 I, numpy solve/slogdet; "
    "mpmath at 50 digits when cond > 1e5) with a-priori componentwise first-order rounding bounds (conditioning-scaled "
    "through A^-1); numerically singular cases (rho = || |A^-1| E || > 0.25) are counted and excluded. "
    "distinct_nontrivial = number of distinct (kernel config, noise, mean, training multiset, target matrix) cases with "
    "n >= 2 (measured as a set of keys per task; tasks have disjoint configurations or disjoint multiset chunks; block-D "
    "groups that repeat a block-P case and update-only sequences are not counted)."
)


def run(tier, seed):
    res = Result()
    tasks = make_tasks(tier)
    stride = int(os.environ.get("C08_TASK_STRIDE", "1"))     # development aid only (mutation screening)
    if stride > 1:
        tasks = tasks[::stride]
        res.cov.cap(f"C08_TASK_STRIDE={stride}: only every {stride}-th task was run")
    for cov, viols in pmap(task, tasks):
        res.cov.merge(cov)
        res.violations.extend(viols)
    # the one known root cause (diagonal() vs forward()) last, so that anything else is listed first
    # (and, per key, the instance with the largest effect first: the CLI keeps the first one per key)
    res.violations.sort(key=lambda v: (v.key.startswith("incr/diagonal-vs-forward-gap"), -getattr(v, "sev", 0.0)))
    res.rule = RULE
    nspec = {d: len(kernel_specs(d, tier)) for d in (1, 2, 3)}
    res.bounds = {"tier": tier, "tasks": len(tasks), "kernel_configs_per_d": nspec, "n": [1, 2, 3, 5], "d": [1, 2, 3],
                  "noise": list(NOISE), "sequence_depth": 3, "mp_dps": dn.MP_DPS, "mp_cond_threshold": ck.MP_COND,
                  "rho_max": tl.RHO_MAX}
    res.assumptions = list(env.ASSUMPTIONS) + [
        "decided on the stated lattice only: nothing is claimed for inputs/parameters between lattice points",
        "reference kernel matrices include the documented safeguard sqrt(D + 1e-9) (NUMERICAL_JITTER) and the documented "
        "warping rescale to [1e-9, 1-1e-9]; a separate cross-check against the safeguard-free textbook formula allows the "
        "analytic gap NUMERICAL_JITTER/2 * prior variance per kernel entry",
        "sample_joint covariance is compared with posterior covariance + 1e-5*I (documented jitter_init of "
        "sample_posterior_joint), or the next AddJitterOp ladder value when detected",
        "AddJitterOp / cholesky_update clamping are detected from the returned factor; such cases are compared with the same "
        "jitter added to the reference (from-scratch) or excluded and counted (clamped pivot)",
        "prior variance k(x,x): KernelFunction.diagonal() (= textbook value, documented) and the diagonal of forward() "
        "(with the sqrt safeguard) differ by <= NUMERICAL_JITTER/2 * k(x,x); predictive variances are accepted with either "
        "as the prior term (additive, not amplified)",
        "incremental == from-scratch is checked against the consistent dense definition first (rounding bound only); a "
        "state that fails it but equals the dense posterior whose appended diagonal entries are diagonal()+noise is "
        "reported under the dedicated key incr/diagonal-vs-forward-gap:<family>:<dup pattern> (one root cause: "
        "cholesky_update takes k(x,x) from diagonal(), cholesky_computations from forward())",
        "parameter values are read back through get_params() (logarithm encoding) and the reference is evaluated at those",
        "VERIF_SEED is not used: the enumeration is complete for the tier and does not depend on it",
    ]
    res.cov.extra["mp_dps"] = dn.MP_DPS
    return res


def replay(data):
    """Re-run one recorded group (blocks P/C/D) or one operation sequence (block Q)."""
    d, tier = data["d"], data["tier"]
    t = dict(block=data["block"], d=d, tier=tier, spec=data["spec"])
    fam, ks, means = _spec_of(t)
    ctx = Ctx(d, fam, ks, means)
    base = dict(block=data["block"], d=d, tier=tier, spec=data["spec"], family=fam, kernel=ctx.ks,
                means=[m for m, _ in ctx.means])
    if data["block"] == "Q":
        run_tree(ctx, data["noise"], data["k"], tuple(data["idx0"]), data["m0"], data["xs"], data["depth"], tier,
                 data["test_idx"], base, only_seq=list(data.get("ops", [])))
    else:
        run_group(ctx, data["noise"], tuple(data["idx"]), data["all_targets"], data["means_used"], data["joint_idx"],
                  base, data.get("thin", False))
    return ctx.finish()[1]
