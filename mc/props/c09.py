"""C09 - gradients for model fitting and acquisition search are the true derivatives.

Bounded-exhaustive enumeration of a finite lattice of (model configuration, data set, parameter point / input
point, coordinate); oracle = Richardson-extrapolated central differences of the value returned alone, plus
value consistency and mpmath closed forms. Decided on the lattice only.
"""
import itertools
import math
import traceback

from .. import env
from ..core import Result, Coverage, Violation, pmap

import numpy as np

from .. import c09_num as num

LEVEL = "exploration"
PROP = "C09"

H0_FIT = 2.0 ** -3        # first step in internal (encoded) parameter units
NTAB_FIT = 7             # fit: steps 2^-3 .. 2^-9
H0_ACQ = 2.0 ** -4        # first step in the unit cube; lattice inputs are >= 0.2 from the faces
REL_TOL = 1e-5            # |g - g_fd| <= REL_TOL * max(scale, |g|)  (+ 4 * Richardson error estimate)
RESOLVE = 1e-6            # a difference quotient is "resolved" if its error estimate <= RESOLVE * max(scale, |g_fd|)
NONTRIVIAL = 1e-2         # a comparison is non-trivial if |g_fd| >= NONTRIVIAL*scale: a 0.1 % error would be flagged
VAL_RTOL = 1e-12          # value-with-gradient == value alone (same arithmetic, different code path)
ACQ_VAL_RTOL = 1e-9
CF_RTOL = 1e-9            # closed forms


# ======================================================================================== lattice

def _subsets(n, all_subsets):
    if all_subsets:
        return [list(c) for c in itertools.combinations(range(4), n)]
    return [list(range(n))]


def fit_configs(tier):
    out = []
    for d in (1, 2):
        for enc in ("logarithm", "positive"):
            for ard in ((0, 1) if d == 2 else (0,)):
                for mean in ("zero", "scalar"):
                    for tt in ("id", "bc-fit", "bc-free"):
                        for ypat in (0, 1):
                            for n in (1, 2, 3, 4):
                                for sub in _subsets(n, tier == "thorough"):
                                    prefix = sub == list(range(n))
                                    out.append(dict(part="fit", d=d, enc=enc, ard=ard, mean=mean, tt=tt, ypat=ypat,
                                                    subset=sub, full=bool(tier == "thorough" and prefix)))
                            if tt == "bc-fit":
                                # five points: on_fit_start releases the Box-Cox lambda
                                out.append(dict(part="fit", d=d, enc=enc, ard=ard, mean=mean, tt=tt, ypat=ypat,
                                                subset=[0, 1, 2, 3, 4], full=bool(tier == "thorough")))
    # warped kernels (one block over all coordinates / two blocks), parameter levels including the exact box bounds
    for d in (1, 2):
        for enc in ("logarithm", "positive"):
            for warp in ((1,) if d == 1 else (1, 2)):
                for mean in ("zero", "scalar"):
                    for n in ((4,) if tier == "quick" else (3, 4)):
                        out.append(dict(part="fit", d=d, enc=enc, ard=0, mean=mean, tt="id", ypat=(d + warp) % 2,
                                        subset=list(range(n)), full=False, warp=warp, bounds=True))
    # ... and the exact bounds for the plain models
    for d in (1, 2):
        for enc in ("logarithm", "positive"):
            for tt in ("id", "bc-free"):
                out.append(dict(part="fit", d=d, enc=enc, ard=int(d == 2), mean="scalar", tt=tt, ypat=0, subset=[0, 1, 2, 3],
                                full=False, bounds=True))
    return out


def acq_configs(tier):
    out = []
    ns = (2, 4) if tier == "quick" else (2, 3, 4)
    Ps = (0, 1) if tier == "quick" else (0, 1, 2)
    for d in (1, 2):
        for ard in ((0, 1) if d == 2 else (0,)):
            for mean in ("zero", "scalar"):
                for tt in ("id", "bc"):
                    for ypat in (0, 1):
                        for n in ns:
                            subs = _subsets(n, tier == "thorough")
                            if tier == "quick" and n == 2:
                                subs = subs + [[1, 2]]
                            for sub in subs:
                                for nf, npend in ((1, 0), (3, 1), (3, 2)):
                                    for P in Ps:
                                        out.append(dict(part="acq", d=d, ard=ard, mean=mean, tt=tt, ypat=ypat,
                                                        subset=sub, nf=nf, npend=npend, P=P))
    return out


def _cost(cfg):
    if cfg["part"] == "fit" and cfg.get("full"):
        p = 2 + (2 if cfg["ard"] else 1) + (cfg["mean"] == "scalar") + (cfg["tt"] != "id")
        return 3 ** p * p
    return 1


# ============================================================================================ part A

def _fit_key(clause, cfg, label=None):
    tt = {"id": "identity", "bc-fit": "boxcox", "bc-free": "boxcox"}[cfg["tt"]]
    k = f"fit:{clause}"
    if label is not None:
        k += f"/param={label.split('[')[0]}"
    return k + f"/transform={tt}/enc={cfg['enc']}"


def check_fit_point(prob, x, cov, viols, only_coord=None):
    from ..c09_models import SPY
    cfg = prob.cfg
    x = np.asarray(x, dtype=float)
    rep = {"cfg": cfg, "x": [float(a) for a in x]}
    try:
        SPY.reset()
        v1, g = prob.value_and_grad(x)
        jit_here = SPY.jittered
        v0 = prob.value_alone(x)
    except Exception as e:  # code under test raised
        viols.append(Violation(PROP, _fit_key("exception:" + type(e).__name__, cfg),
                               f"scipy objective raised {type(e).__name__}: {e} at x={rep['x']}", rep))
        cov.outcome("fit:exception")
        return
    cov.extra["function_evaluations"] = cov.extra.get("function_evaluations", 0) + 2
    if not (math.isfinite(v0) and math.isfinite(v1) and np.all(np.isfinite(g))):
        viols.append(Violation(PROP, _fit_key("non-finite", cfg),
                               f"criterion/gradient not finite inside the box: value {v1}, grad {g.tolist()}", rep))
        return
    if abs(v1 - v0) > VAL_RTOL * max(1.0, abs(v0)):
        viols.append(Violation(PROP, _fit_key("value-mismatch", cfg),
                               f"value returned with gradient {v1!r} != value alone {v0!r}", rep))
    for ix, label, kind, _levels in prob.coords:
        if only_coord is not None and ix != only_coord:
            continue
        SPY.reset()

        def f(t, ix=ix):
            y = x.copy()
            y[ix] += t
            return prob.value_alone(y)

        lo_b, hi_b = prob.box.get(ix, (None, None))
        side = +1.0 if (lo_b is not None and x[ix] == lo_b) else (-1.0 if (hi_b is not None and x[ix] == hi_b) else 0.0)
        try:
            if side:
                # on a box bound: differentiate from inside the box only
                gfd, err = num.fd_one_sided(f, H0_FIT, side, NTAB_FIT)
                cov.outcome("fit:on-bound:one-sided")
            else:
                gfd, err = num.fd_scalar(f, H0_FIT, NTAB_FIT)
        except Exception as e:
            viols.append(Violation(PROP, _fit_key("exception:" + type(e).__name__, cfg),
                                   f"criterion raised {type(e).__name__}: {e} near x={rep['x']} coord {label}", rep))
            continue
        cov.add("evaluations")
        cov.extra["function_evaluations"] = cov.extra.get("function_evaluations", 0) + 2 * NTAB_FIT
        if SPY.jittered or jit_here:
            cov.outcome("fit:skipped-jitter")
            cov.extra["fit_jitter_points"] = cov.extra.get("fit_jitter_points", 0) + 1
            continue
        gi = float(g[ix])
        if not (err <= RESOLVE * max(1.0, abs(gfd))):
            cov.outcome("fit:skipped-fd-unresolved")
            cov.extra["fit_fd_unresolved"] = cov.extra.get("fit_fd_unresolved", 0) + 1
            continue
        tol = REL_TOL * max(1.0, abs(gi)) + 4.0 * err
        diff = abs(gi - gfd)
        cov.outcome(f"fit:compared:{kind}")
        if gi != 0.0:
            cov.extra["fit_nonzero_gradient"] = cov.extra.get("fit_nonzero_gradient", 0) + 1
        if abs(gfd) >= NONTRIVIAL * 1.0:
            cov.add("distinct_nontrivial")
            cov.extra["fit_nontrivial"] = cov.extra.get("fit_nontrivial", 0) + 1
            cov.sample({"part": "fit", "cfg": cfg, "x": rep["x"], "coord": label, "grad": gi, "fd": gfd,
                        "fd_err": err}, limit=3)
        cov.extra["max_fit_rel_dev"] = max(cov.extra.get("max_fit_rel_dev", 0.0), diff / max(1.0, abs(gi)))
        if diff > tol:
            r = dict(rep, coord=ix)
            viols.append(Violation(PROP, _fit_key("gradient", cfg, label),
                                   f"d(criterion)/d({label}) returned {gi!r}, Richardson difference of the value "
                                   f"{gfd!r} (+-{err:.1e}) at internal x={rep['x']} "
                                   f"[d={cfg['d']} n={len(cfg['subset'])} mean={cfg['mean']} ard={cfg['ard']} "
                                   f"tt={cfg['tt']}]", r))


def run_fit(cfg):
    from ..c09_models import FitProblem, SPY
    cov, viols = Coverage(), []
    try:
        prob = FitProblem(cfg)
    except Exception as e:
        viols.append(Violation(PROP, _fit_key("exception:" + type(e).__name__, cfg),
                               f"building likelihood/objective raised {type(e).__name__}: {e}", {"cfg": cfg}))
        return cov, viols
    calls0 = SPY.total
    for x in prob.base_points(cfg.get("full", False)):
        check_fit_point(prob, x, cov, viols)
    cov.extra["spy_calls"] = SPY.total - calls0
    cov.outcome(f"fit:config:p={len(prob.coords)}")
    return cov, viols


# ============================================================================================ part B

def _acq_key(clause, cfg, head):
    return f"acq:{clause}/head={head}/nf={cfg['nf']}"


def _stencil(x, d):
    rows = [x.copy()]
    for i in range(d):
        h = H0_ACQ
        for _ in range(num.NTAB):
            for s in (+1.0, -1.0):
                y = x.copy()
                y[i] += s * h
                rows.append(y)
            h /= num.CON
    return np.array(rows)


def _closed_form(prob, head, hname, x):
    """mpmath closed form of the head from the predictors' mean/std and the heads' incumbent.
    Returns (reference value of the *negated* head i.e. the improvement, cancellation magnitude) or None."""
    pa = prob.active.predict(x.reshape(1, -1))[0]
    means = [float(v) for v in np.asarray(pa["mean"]).reshape(-1)]
    std = float(np.asarray(pa["std"]).reshape(-1)[0])
    if std < 1e-9:
        return None          # std clamp of get_quantiles (not reached on the lattice)
    jitter = head.jitter
    if hname == "EI":
        bests = [float(b) for b in np.asarray(prob.active.current_best()[0]).reshape(-1)]
        return num.ei_closed_form(num.bcast(bests, len(means)), means, std, jitter)
    sec = prob.secondary[hname]
    ps = sec.predict(x.reshape(1, -1))[0]
    smeans = [float(v) for v in np.asarray(ps["mean"]).reshape(-1)]
    if hname.startswith("EIpu"):
        bests = [float(b) for b in np.asarray(prob.active.current_best()[0]).reshape(-1)]
        n = max(len(means), len(smeans))
        return num.eipu_closed_form(num.bcast(bests, n), num.bcast(means, n), std, jitter, smeans,
                                    head.exponent_cost)
    sstd = float(np.asarray(ps["std"]).reshape(-1)[0])
    bests = [None if math.isnan(float(b)) else float(b)
             for b in np.asarray(head._get_current_bests(head.predictor)((0, 0))).reshape(-1)]
    return num.cei_closed_form(bests, means, std, jitter, smeans, sstd)


def _cost_clamped(prob, hname, x):
    try:
        from syne_tune.optimizer.schedulers.searchers.bayesopt.models.meanstd_acqfunc_impl import MIN_COST
    except ImportError:
        MIN_COST = 1e-12
    m = np.asarray(prob.secondary[hname].predict(x.reshape(1, -1))[0]["mean"], dtype=float)
    return bool(np.any(m <= MIN_COST))


def run_acq(task):
    from ..c09_models import AcqProblem
    cfg, seed = task["cfg"], task["seed"]
    only_head = task.get("head")
    cov, viols = Coverage(), []
    rep0 = {"cfg": cfg, "seed": seed}
    try:
        prob = AcqProblem(cfg, seed)
    except Exception as e:
        viols.append(Violation(PROP, f"acq:exception:{type(e).__name__}/build/nf={cfg['nf']}",
                               f"building predictors/heads raised {type(e).__name__}: {e}\n"
                               + traceback.format_exc()[-600:], rep0))
        return cov, viols
    if prob.model_jitter:
        cov.outcome("acq:model-with-jitter")     # jitter does not depend on the input: gradients still compared
    d = cfg["d"]
    inputs = prob.inputs()
    for hname, head in prob.heads.items():
        if only_head and hname != only_head:
            continue
        rep = dict(rep0, head=hname)
        recs = []
        failed = False
        for x in inputs:
            try:
                S = _stencil(x, d)
                vals = np.asarray(head.compute_acq(S), dtype=float).reshape(-1)
                v_single = float(np.asarray(head.compute_acq(x.copy())).reshape(-1)[0])
                v_g, g = head.compute_acq_with_gradient(x.copy())
                v_g = float(np.asarray(v_g).reshape(-1)[0])
                g = np.asarray(g, dtype=float).reshape(-1)
            except Exception as e:
                viols.append(Violation(PROP, _acq_key("exception:" + type(e).__name__, cfg, hname),
                                       f"{hname} raised {type(e).__name__}: {e} at input {x.tolist()}",
                                       dict(rep, input=x.tolist())))
                cov.outcome("acq:exception")
                failed = True
                break
            cov.extra["function_evaluations"] = cov.extra.get("function_evaluations", 0) + len(S) + 2
            recs.append((x, vals, v_single, v_g, g))
        if failed:
            continue
        # ---- finite differences first: the scale of the head's gradient over the lattice (values only)
        fds = []
        for x, vals, *_ in recs:
            row = []
            for i in range(d):
                o = 1 + i * 2 * num.NTAB
                fp = [vals[o + 2 * k] for k in range(num.NTAB)]
                fm = [vals[o + 2 * k + 1] for k in range(num.NTAB)]
                row.append(num.richardson(num.central_differences(fp, fm, H0_ACQ)))
            fds.append(row)
        finite = [abs(e[0]) for row in fds for e in row if math.isfinite(e[0])]
        scale = min(1.0, max(finite)) if finite else 1.0
        if scale == 0.0:
            scale = 1.0
        for (x, vals, v_single, v_g, g), row in zip(recs, fds):
            xin = x.tolist()
            if not (np.all(np.isfinite(vals)) and math.isfinite(v_g) and np.all(np.isfinite(g))):
                viols.append(Violation(PROP, _acq_key("non-finite", cfg, hname),
                                       f"{hname} value/gradient not finite at interior input {xin}",
                                       dict(rep, input=xin)))
                continue
            # value consistency: batch row == single input == value returned with the gradient
            mag = max(abs(v_single), abs(v_g), abs(vals[0]))
            if abs(v_single - v_g) > ACQ_VAL_RTOL * mag + 1e-300:
                viols.append(Violation(PROP, _acq_key("value-mismatch", cfg, hname),
                                       f"{hname}: compute_acq {v_single!r} vs compute_acq_with_gradient value "
                                       f"{v_g!r} at {xin}", dict(rep, input=xin)))
            # row of a batch call vs single-input call: only needs to hold to the accuracy the difference
            # quotients rely on (deep-tail EI values are ill-conditioned in the last bits of mean/std)
            if abs(vals[0] - v_single) > 1e-6 * mag + 1e-300:
                viols.append(Violation(PROP, _acq_key("value-mismatch-batch", cfg, hname),
                                       f"{hname}: compute_acq on a batch gives {vals[0]!r} for the row that alone "
                                       f"gives {v_single!r} at {xin}", dict(rep, input=xin)))
            # sign: expected improvement (and its cost-aware / constrained variants) never negative
            if hname != "LCB" and (np.max(vals) > 0.0 or v_g > 0.0):
                viols.append(Violation(PROP, _acq_key("negative-improvement", cfg, hname),
                                       f"{hname}: minus-improvement value {max(np.max(vals), v_g)!r} > 0 near {xin}",
                                       dict(rep, input=xin)))
            # closed form
            if hname != "LCB":
                try:
                    cf = _closed_form(prob, head, hname, x)
                except Exception as e:
                    cf = None
                    viols.append(Violation(PROP, _acq_key("exception:" + type(e).__name__, cfg, hname),
                                           f"{hname}: predict/current_best raised {type(e).__name__}: {e}",
                                           dict(rep, input=xin)))
                if cf is None:
                    cov.outcome("acq:closed-form-skipped")
                else:
                    ref, cmag = cf
                    dev = abs(num.mp.mpf(-v_single) - ref)
                    if dev > CF_RTOL * abs(ref) + 1e-13 * cmag + 1e-290:   # 1e-290: float64 underflow floor
                        viols.append(Violation(PROP, _acq_key("closed-form", cfg, hname),
                                               f"{hname}: value {-v_single!r} but closed form "
                                               f"{float(ref)!r} at {xin}", dict(rep, input=xin)))
                    cov.outcome(f"acq:closed-form-checked:{hname}")
            # gradient
            for i in range(d):
                gfd, err = row[i]
                gi = float(g[i])
                cov.add("evaluations")
                if not (err <= RESOLVE * max(scale, abs(gfd))):
                    cov.outcome("acq:skipped-fd-unresolved")
                    cov.extra["acq_fd_unresolved"] = cov.extra.get("acq_fd_unresolved", 0) + 1
                    continue
                tol = REL_TOL * max(scale, abs(gi)) + 4.0 * err
                diff = abs(gi - gfd)
                cov.outcome(f"acq:compared:{hname}")
                if gi != 0.0:
                    cov.extra["acq_nonzero_gradient"] = cov.extra.get("acq_nonzero_gradient", 0) + 1
                if abs(gfd) >= NONTRIVIAL * scale:
                    cov.add("distinct_nontrivial")
                    cov.extra["acq_nontrivial"] = cov.extra.get("acq_nontrivial", 0) + 1
                    cov.sample({"part": "acq", "cfg": cfg, "head": hname, "input": xin, "coord": i, "grad": gi,
                                "fd": gfd, "fd_err": err, "scale": scale}, limit=6)
                if diff <= tol:
                    cov.extra["max_acq_rel_dev_passing"] = max(cov.extra.get("max_acq_rel_dev_passing", 0.0),
                                                               diff / max(scale, abs(gi)))
                if diff > tol:
                    clause = "gradient"
                    if hname.startswith("EIpu") and _cost_clamped(prob, hname, x):
                        # value is flat in the cost once max(cost, MIN_COST) clamps; the head gradient is not
                        clause, hkey = "gradient-ignores-cost-clamp", "EIpu"
                    else:
                        hkey = hname
                    viols.append(Violation(PROP, _acq_key(clause, cfg, hkey),
                                           f"{hname}: d/dx{i} returned {gi!r}, Richardson difference of compute_acq "
                                           f"{gfd!r} (+-{err:.1e}, scale {scale:.2e}) at input {xin} "
                                           f"[d={d} n={len(cfg['subset'])} mean={cfg['mean']} ard={cfg['ard']} "
                                           f"tt={cfg['tt']} npend={cfg['npend']} P={cfg['P']}]",
                                           dict(rep, input=xin, coord=i)))
        if hname.startswith("CEI"):
            try:
                b = np.asarray(head._get_current_bests(head.predictor)((0, 0))).reshape(-1)
                cov.outcome(f"acq:{hname}:feasible-fantasies={int(np.sum(~np.isnan(b)))}/{b.size}")
            except Exception:
                pass
    cov.outcome(f"acq:config:nf={cfg['nf']}:npend={cfg['npend']}")
    return cov, viols


# ============================================================================================== run

def _task(t):
    if t["cfg"]["part"] == "fit":
        return run_fit(t["cfg"])
    return run_acq(t)


def run(tier, seed):
    res = Result()
    fcfgs = fit_configs(tier)
    acfgs = acq_configs(tier)
    tasks = [{"cfg": c, "seed": seed} for c in fcfgs + acfgs]
    tasks.sort(key=lambda t: -_cost(t["cfg"]))
    fit_s, acq_s = [], []
    for cov, viols in pmap(_task, tasks):
        for smp in cov.samples:
            (fit_s if smp.get("part") == "fit" else acq_s).append(smp)
        cov.samples = []
        res.cov.merge(cov)
        res.violations.extend(viols)
    # a few written-out comparisons of both parts (first of the smallest and of the largest configurations)
    res.cov.samples = fit_s[-2:] + fit_s[:1] + acq_s[:2] + acq_s[-1:]
    from ..c09_models import spy_self_test
    if not res.cov.extra.get("spy_calls") or not spy_self_test():
        res.violations.append(Violation(PROP, "harness:jitter-spy-not-effective",
                                        "AddJitterOp seam never called or its self-test (duplicate inputs, zero noise => "
                                        "jitter) failed: jitter detection is not in effect"))
    res.rule = (
        "Cartesian lattice, every element visited once. Part A (fit): {d in 1,2} x {n<=4 inputs from a fixed 4-point grid in "
        "general position (+ one n=5 set so that on_fit_start frees the Box-Cox lambda); thorough: all subsets} x 2 target "
        "patterns x Matern52 {ARD off/on} x mean {zero, scalar} x transform {identity, Box-Cox lambda fixed, Box-Cox lambda "
        "free} x encoding {logarithm, positive}; parameter points = start point of every fit + each coordinate at the 3 "
        "quartile points of its box (thorough, prefix data sets: full 3^p product); at each point EVERY coordinate of the "
        "gradient returned by the scipy objective of create_lbfgs_arguments is compared with a Richardson/Ridders "
        "central-difference tableau (fit: steps 2^-3..2^-9, acquisition: 2^-4..2^-11) of add_regularizer_to_criterion evaluated alone. Part B (acquisition): "
        "model lattice x fantasies {none, 3 with 1 or 2 pending} x hyper-parameter settings x heads {EI, LCB, EIpu e=1, "
        "EIpu e=.5, EIpu with 1-column cost, CEI feasible, CEI no feasible best} x inputs {0.2,0.5,0.8}^d x coordinate. "
        "distinct_nontrivial = comparisons actually made (no jitter, difference quotient resolved) whose derivative is at "
        "least 1e-2 of the tolerance scale (so a 0.1 % relative error of that coordinate would be flagged); each is a "
        "distinct (config, data, point, coordinate). Comparisons with a merely non-zero gradient are counted in "
        "fit_nonzero_gradient / acq_nonzero_gradient.")
    res.bounds = {"tier": tier, "fit_configs": len(fcfgs), "acq_configs": len(acfgs), "n_max": 4, "d_max": 2,
                  "rel_tol": REL_TOL, "resolve": RESOLVE, "h0_fit": H0_FIT, "h0_acq": H0_ACQ,
                  "richardson_steps_acq": num.NTAB, "richardson_steps_fit": NTAB_FIT}
    res.assumptions = list(env.ASSUMPTIONS) + [
        "decided on the lattice only: no claim for parameter/input points off the lattice, n>5, d>2, other kernels, MCMC",
        "tolerance |g-g_fd| <= 1e-5*max(s,|g|) + 4*E, E = Richardson error estimate computed from values only; "
        "s=1 for the fit criterion, s=min(1, max |g_fd| over the head's input lattice) for acquisition heads; "
        "comparisons with E > 1e-6*max(s,|g_fd|) are counted as unresolved, not compared",
        "AddJitterOp is wrapped harness-side (posterior_utils.AddJitterOp) only to DETECT jitter>0; such points are "
        "counted separately and not compared (dependence of jitter on inputs is ignored by design)",
        "fantasy draws owned through a fixed random_seed of each GaussianProcessRegression (independent of VERIF_SEED: "
        "the lattice, hence the verdict, is the same for every seed); "
        "hyper-parameters are set, not fitted (update_params=False)",
        "Box-Cox predictors use normalize_targets=False and positive targets",
    ]
    return res


def replay(data):
    cov, viols = Coverage(), []
    cfg = data["cfg"]
    if cfg["part"] == "fit":
        from ..c09_models import FitProblem
        prob = FitProblem(cfg)
        if "x" in data:
            check_fit_point(prob, data["x"], cov, viols, only_coord=data.get("coord"))
        else:
            return run_fit(cfg)[1]
    else:
        _, viols = run_acq({"cfg": cfg, "seed": data.get("seed", 0), "head": data.get("head")})
        if "input" in data:
            viols = [v for v in viols if v.replay.get("input") == data["input"]
                     and v.replay.get("coord") == data.get("coord")] or viols
    return viols
