"""C03 — stopping-type asynchronous Hyperband decides by the documented quantile rule."""
import itertools

from .. import env
from ..core import Result, pmap, Violation
from ..schedx import World, explore, Oracle
from ..world import table_from_perms, all_perms, rotate
from ..refs.rungs import rung_levels
from ..refs.stopping import StoppingRef

from ..scheds import shared as scheds_shared

LEVEL = "model_checking"
PROP = "C03"

RUNG_SYSTEMS = {
    "g1rf2m4": dict(grace=1, rf=2, max_t=4),
    "g1rf3m9": dict(grace=1, rf=3, max_t=9),
    "g2rf2m8": dict(grace=2, rf=2, max_t=8),
    "g1inc2m7": dict(grace=1, inc=2, max_t=7),
    "lv125m6": dict(levels=[1, 2, 5], max_t=6),
    "g1rf2m5": dict(grace=1, rf=2, max_t=5),
    "g1rf3m27": dict(grace=1, rf=3, max_t=27),      # levels 1, 3, 9 (long single-worker histories only)
    "g1rf2.5m7": dict(grace=1, rf=2.5, max_t=7),   # non-integer reduction factor: levels 1, 2, 6 (round(2.5**2) = 6, not round(2*2.5) = 5)
}


def make_scheduler(cfg):
    from syne_tune.optimizer.schedulers import HyperbandScheduler
    from syne_tune.config_space import uniform
    rs = RUNG_SYSTEMS[cfg["rs"]]
    kw = dict(searcher="random", type=cfg["type"], metric="m", mode=cfg["mode"], resource_attr="epoch",
              brackets=cfg["brackets"], rung_system_per_bracket=cfg["per_bracket"],
              random_seed=cfg["seed"], search_options=scheds_shared("so", {"debug_log": False}))
    space = {"a": uniform(0, 1)}
    if cfg.get("use_mra"):
        space["epochs"] = rs["max_t"]
        kw["max_resource_attr"] = "epochs"
    else:
        kw["max_t"] = rs["max_t"]
    if "levels" in rs:
        kw["rung_levels"] = list(rs["levels"])
    elif "rf" in rs:
        kw.update(grace_period=rs["grace"], reduction_factor=rs["rf"])
    else:
        kw.update(grace_period=rs["grace"], reduction_factor=None, rung_increment=rs["inc"])
    if cfg["type"] == "rush_stopping":
        kw["rung_system_kwargs"] = {"num_threshold_candidates": cfg["rush_k"]}
        if cfg["rush_k"] > 0:
            kw["points_to_evaluate"] = [{"a": 0.1 + 0.2 * i} for i in range(cfg["rush_k"])]
    s = HyperbandScheduler(space, **kw)
    s.set_time_keeper(env.ConstTimeKeeper())
    return s


class RungInvariant(Oracle):
    """Implementation rungs == reference rungs; every trial at most once per rung."""

    def __init__(self, ref):
        self.ref = ref

    def after(self, world, ev, obs):
        if obs[0] != "report":
            return []
        try:
            systems = world.s.terminator._rung_systems
            impl = []
            for rs_ in systems:
                d = {}
                for rung in rs_._rungs:
                    ids = [int(e.trial_id) for e in rung.data]
                    if len(ids) != len(set(ids)):
                        return [("stopping:rung-duplicate", f"trial recorded twice in rung {rung.level}: {ids}")]
                    if ids:
                        d[rung.level] = sorted((int(e.trial_id), float(e.metric_val)) for e in rung.data)
                impl.append(d)
        except AttributeError:
            return []
        ref = [{lv: sorted(lst) for lv, lst in d.items() if lst} for d in self.ref.rungs]
        if impl != ref:
            return [("stopping:rung-contents", f"rung contents differ: impl {impl} reference {ref}")]
        return []


def build_world(cfg):
    rs = RUNG_SYSTEMS[cfg["rs"]]
    levels = rung_levels(**rs)
    max_t = rs["max_t"]
    s = make_scheduler(cfg)
    nb = min(cfg["brackets"], len(levels) + 1)
    sign = 1.0 if cfg["mode"] == "min" else -1.0
    perms = {int(k): tuple(v) for k, v in cfg["perms"].items()}
    table = table_from_perms(cfg["T"], max_t, perms, sign, zero_rank=cfg.get("zero_rank"))
    spec = dict(W=cfg["W"], T=cfg["T"], R=max_t, table=table, brackets=(nb if nb > 1 else 0) if not cfg.get("free_brackets") else 0,
                max_resource_attr="epochs" if cfg.get("use_mra") else None,
                fail_budget=cfg.get("F", 0), id0=cfg.get("id0", 0), rereport=cfg.get("rereport", 0))
    ref = StoppingRef(levels, max_t, cfg["mode"], nb, cfg["per_bracket"],
                      rush_k=cfg.get("rush_k") if cfg["type"] == "rush_stopping" else None)
    w = World(s, spec, [ref, RungInvariant(ref)])
    if list(s.rung_levels) != levels or s.max_t != max_t:
        w.dead = ("EXC", "RungLevels", "reference", f"impl {s.rung_levels}/{s.max_t} ref {levels}/{max_t}")
    return w


def ctx_of(cfg):
    return f"{cfg['type']}/b{cfg['brackets']}{'p' if cfg['per_bracket'] else 's'}"


def label(cfg):
    return {k: cfg[k] for k in sorted(cfg)}


def task(cfg):
    cov, viols = explore(lambda: build_world(cfg), PROP, label(cfg), max_depth=cfg.get("D"),
                         max_states=cfg.get("max_states"), ctx=ctx_of(cfg))
    w = build_world(cfg)
    if w.dead:
        viols.append(Violation(PROP, "stopping:rung-levels", w.dead[3], {"cfg": label(cfg)}))
    return cov, viols


def configs(tier, seed):
    out = []
    if tier == "quick":
        systems = ["g1rf2m4", "lv125m6"]
        T, W = 4, 2
    else:
        systems = [k for k in RUNG_SYSTEMS if k != "g1rf3m27"]
        T, W = 4, 3
    for rs_name in systems:
        rs = RUNG_SYSTEMS[rs_name]
        levels = rung_levels(**rs)
        for mode in ("min", "max"):
            for brackets, per_bracket in ((1, False), (2, False), (2, True), (3, False)):
                if tier == "quick" and brackets == 3:
                    continue
                types = [("stopping", None)]
                if brackets == 1:
                    types += [("rush_stopping", 0), ("rush_stopping", 2)]
                for typ, k in types:
                    p1 = rotate(all_perms(T), seed * 7 + len(out))
                    n1 = 3 if tier == "quick" else 5
                    if typ != "stopping" or brackets > 1:
                        n1 = 2 if tier == "quick" else 3
                    for i, perm1 in enumerate(p1[:n1]):
                        perm2 = tuple(reversed(range(T))) if i % 2 else tuple(range(T))
                        perms = {str(levels[0]): perm1}
                        if len(levels) > 1:
                            perms[str(levels[1])] = perm2
                        cfg = dict(rs=rs_name, mode=mode, brackets=brackets, per_bracket=per_bracket, type=typ,
                                   rush_k=k, T=T, W=W, perms=perms, seed=seed, use_mra=(i % 2 == 1))
                        cfg["zero_rank"] = [None, T - 1, 1][(i + len(out)) % 3]
                        cfg["id0"] = 8 if (typ == "stopping" and len(out) % 2) else 0
                        # every third configuration: one job reports a level twice ("each trial enters a rung at most once")
                        cfg["rereport"] = 1 if len(out) % 3 == 1 else 0
                        if tier == "quick":
                            cfg["max_states"] = 4000
                        else:
                            cfg["max_states"] = 12000
                        out.append(cfg)
    # RUSH with one threshold candidate and six trials in a rung: the candidate arrives after a better trial and is stopped by
    # the quantile rule (a stopped candidate sets no threshold), worse trials lift the cut, a later trial lands in between
    for mode in ("min", "max"):
        for W, perm in ((3, (1, 0, 3, 4, 5, 2)), (2, (1, 0, 4, 3, 5, 2))):
            if tier == "quick" and W == 2 and mode == "max":
                continue
            out.append(dict(rs="g1rf2m4", mode=mode, brackets=1, per_bracket=False, type="rush_stopping", rush_k=1, T=6, W=W,
                            perms={"1": perm}, seed=seed, use_mra=False, zero_rank=None, id0=0, rereport=0,
                            max_states=6000 if tier == "quick" else 20000))
    return out


def levels_lattice(tier):
    """rung levels of the real scheduler vs the documented arithmetic (round(r_min * eta^k) < max_t; r_min + k*inc) for every
    point of a finite lattice of (grace_period, reduction_factor incl. non-integer, rung_increment, max_t)"""
    from syne_tune.optimizer.schedulers import HyperbandScheduler
    from syne_tune.config_space import uniform
    from ..core import Coverage
    cov, viols = Coverage(), []
    top = 48 if tier == "quick" else 160
    seen = set()
    for grace in (1, 2, 3, 4):
        for kind, par in [("rf", x) for x in (2, 2.25, 2.5, 3, 3.5, 4)] + [("inc", x) for x in (1, 2, 3, 5)]:
            for max_t in range(grace + 1, top + 1):
                kw = dict(reduction_factor=par) if kind == "rf" else dict(reduction_factor=None, rung_increment=par)
                ref = rung_levels(grace=grace, max_t=max_t, **{kind: par})
                cov.add("evaluations")
                for typ in ("stopping", "promotion"):
                    try:
                        s = HyperbandScheduler({"a": uniform(0, 1)}, searcher="random", type=typ, metric="m", mode="min",
                                               resource_attr="epoch", max_t=max_t, grace_period=grace, random_seed=0,
                                               search_options={"debug_log": False}, **kw)
                        got = [int(x) for x in s.rung_levels]
                    except AssertionError as e:
                        got = ("AssertionError", str(e)[:80])
                    cov.add("transitions")
                    if got != ref:
                        key = f"levels|stopping:rung-levels:{kind}={par}" if typ == "stopping" else f"levels|stopping:rung-levels:{kind}={par}:promotion"
                        if key not in seen:
                            seen.add(key)
                            viols.append(Violation(PROP, key, f"grace_period={grace} {kind}={par} max_t={max_t} type={typ}: scheduler uses "
                                                              f"rung levels {got}, documented arithmetic gives {ref}",
                                                   {"engine": "levels", "grace": grace, "kind": kind, "par": par, "max_t": max_t, "type": typ}))
                cov.outcome("levels:" + str(len(ref)))
    return cov, viols


def run(tier, seed):
    res = Result()
    cfgs = configs(tier, seed)
    for cov, viols in pmap(task, cfgs):
        res.cov.merge(cov)
        res.violations.extend(viols)
    cov, viols = levels_lattice(tier)
    res.cov.merge(cov)
    res.violations.extend(viols)
    res.rule = ("BFS over event histories {suggest(bracket), report(t), complete(t)} of the real HyperbandScheduler "
                "(type stopping / rush_stopping) with digest dedup; per configuration = rung system x mode x brackets x "
                "shared/per-bracket x metric-rank permutation; oracle = reference quantile rule stepped in lock-step + "
                "rung-content invariant. Plus: rung levels of the real scheduler vs the documented arithmetic on a finite lattice of "
                "(grace_period, reduction_factor incl. non-integer, rung_increment, max_t) (evaluations).")
    res.bounds = {"configs": len(cfgs), "tier": tier}
    res.assumptions = list(env.ASSUMPTIONS) + [
        "bracket sampling owned via scheduler.bracket_distribution (one-hot chosen by explorer)",
        "scheduler clock replaced by a constant TimeKeeper via set_time_keeper()",
        "near ties (|v-cut|<=1e-9 rel) accept both decisions"]
    res.cov.extra["near_tie_rule"] = "accepted both"
    return res


def replay(data):
    from ..schedx import replay as rp
    if data.get("engine") == "levels":
        return [v for v in levels_lattice("thorough")[1] if v.replay["kind"] == data["kind"] and v.replay["par"] == data["par"]]
    cfg = data["cfg"]
    hist = [tuple(e) for e in data["history"]]
    w = build_world(cfg)
    out = []
    for ev in hist:
        obs, vs = w.step(ev)
        if obs[0] == "EXC":
            out.append(Violation(PROP, f"exc:{obs[1]}@{obs[2]}", obs[3]))
        for k, what in vs:
            out.append(Violation(PROP, k, what))
    return out
