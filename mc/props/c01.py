"""C01 — worker budget, legal trial life cycle and Tuner<->scheduler call protocol in every tuning run."""
from .. import env
from ..core import Result, pmap, Violation
from .. import tunerx, scheds, monitors
from ..backends import ScriptedBackend, ScriptSpec
from ..world import BASE

LEVEL = "model_checking"
PROP = "C01"

EXPECTED_PROTO = {"suggest-start", "add", "result-CONTINUE", "result-STOP", "result-PAUSE", "remove-paused",
                  "remove-stopped", "complete", "error", "suggest-resume"}


def table(T, R, sign, two=False):
    rows = []
    for t in range(T):
        row = []
        for r in range(1, R + 1):
            v = sign * (BASE[(t * 3 + 1) % len(BASE)] - 0.013 * r)
            row.append((v, BASE[(t * 5 + 2) % len(BASE)] + 0.01 * r) if two else v)
        rows.append(row)
    return rows


def build_factory(cfg):
    def build(chooser, log):
        from syne_tune import Tuner, StoppingCriterion
        R = cfg["R"]
        space = None
        if cfg.get("grid_size"):
            from syne_tune.config_space import choice
            space = {"a": choice([round(0.1 + 0.15 * i, 2) for i in range(cfg["grid_size"])])}
        sched, info = scheds.make(cfg["kind"], mode=cfg["mode"], seed=cfg["seed"], R=R, mra=cfg.get("mra", True), space=space)
        tunerx.wrap_scheduler(sched, log)
        sign = 1.0 if cfg["mode"] == "min" else -1.0
        extra = None
        if cfg["kind"] == "hb-cost":
            extra = lambda t, level, run: {"cost": 1.0 + 0.5 * level + 0.1 * t}
        # PBT jobs are not bounded by their own script: they run until the scheduler stops them at max_t
        R_job = R + 2 if cfg["kind"] == "pbt" else R
        spec = ScriptSpec(table(8, R_job, sign, two=info["metrics"] is not None), R_job, metrics=info["metrics"],
                          max_resource_attr=info["mra"], checkpointing=cfg.get("ckpt", True), extra=extra)
        backend = ScriptedBackend(chooser, spec, cfg["W"], profile=cfg["profile"], fault_budget=cfg.get("F", 0),
                                  faults=cfg.get("faults", ("crash",)), log=log,
                                  delete_checkpoints=cfg.get("delete", False))
        rec = tunerx.make_recorder_callback(log, loop_cap=cfg.get("loop_cap", 150))
        crit = StoppingCriterion(**cfg["stop"])
        tuner = Tuner(trial_backend=backend, scheduler=sched, stop_criterion=crit, n_workers=cfg["W"], sleep_time=0,
                      callbacks=[rec], save_tuner=False, suffix_tuner_name=False, tuner_name="verif-c01",
                      max_failures=cfg.get("max_failures", 5),
                      asynchronous_scheduling=cfg.get("async", True),
                      wait_trial_completion_when_stopping=cfg.get("wait", False),
                      start_jobs_without_delay=cfg.get("nodelay", True))
        return dict(tuner=tuner, backend=backend, scheduler=sched)
    return build


def ctx_of(cfg):
    if cfg.get("sim"):
        return "sim"
    return f"{cfg['kind']}/W{cfg['W']}" + (f"/grid{cfg['grid_size']}" if cfg.get("grid_size") else "") + ("/ask-backend" if not cfg.get("nodelay", True) else "") + ("" if cfg.get("mra", True) else "/nomra")


def label(cfg):
    if cfg.get("sim"):
        return {k: cfg[k] for k in sorted(cfg)}
    d = {k: cfg[k] for k in sorted(cfg) if k != "profile"}
    d["profile"] = tunerx.profile_name(cfg["profile"])
    return d


def task(cfg):
    if cfg.get("sim"):
        return task_sim(cfg)
    seen = set()

    def check(ex):
        vs = monitors.lifecycle(ex, cfg["W"], allow_exc=("LoopCap",) if cfg.get("allow_loopcap") else ())
        seen.update(ex.proto_seen)
        return vs

    cov, viols = tunerx.explore(build_factory(cfg), check, PROP, label(cfg), bound=cfg["k"], max_exec=cfg.get("max_exec"),
                                loop_cap=cfg.get("loop_cap", 150), ctx=ctx_of(cfg),
                                state_of=lambda ex: getattr(ex, "states_seen", ()))
    cov.extra["protocol_transitions_seen"] = sorted(seen)
    return cov, viols


def task_sim(cfg):
    """the same life-cycle / protocol monitor over the real simulator backend (reuses the C10 harness)"""
    from . import c10
    seen = set()

    def check(ex):
        vs = monitors.lifecycle(ex, cfg["W"], allow_exc=("LoopCap",))
        seen.update(ex.proto_seen)
        if any(k.startswith("exc:") for k, _ in vs):
            # an exception the scheduler raised *on* a stale result of the previous run (C10's finding) is named by that cause
            named = {k.split(":on-stale-result-of-previous-run:")[0]: k for k, _ in sim_check(ex) if ":on-stale-result-of-previous-run:" in k}
            vs = [(named.get(k, k), w) for k, w in vs]
        return vs
    sim_check = c10.check_factory(cfg)
    cov, viols = tunerx.explore(c10.build_factory(cfg), check, PROP, c10.label(cfg), bound=cfg["k"], max_exec=cfg.get("max_exec"),
                                loop_cap=cfg.get("loop_cap", 400), ctx="sim/" + c10.ctx_of(cfg) + f"/W{cfg['W']}",
                                state_of=lambda ex: getattr(ex, "states_seen", ()))
    cov.extra["protocol_transitions_seen"] = sorted(seen)
    return cov, viols


def configs(tier, seed):
    out = []
    kinds = ["fifo-random", "hb-stopping", "hb-promotion", "shb", "pbt", "median", "moasha", "dehb", "fifo-grid",
             "hb-pasha", "hb-cost", "hb-rush-stop", "hb-rush-prom", "fifo-bo"]
    profiles = tunerx.PROFILES
    for ki, kind in enumerate(kinds):
        for W in (1, 2, 3):
            if tier == "quick" and W == 3 and kind not in ("hb-promotion", "pbt"):
                continue
            for pi, prof in enumerate(profiles):
                if tier == "quick" and (pi + ki + W + seed) % 4 != 0:
                    continue  # quick: 2 of the 8 profiles per (kind, W), rotated by seed
                k = 1
                if tier == "thorough":
                    k = 2 if W <= 2 else 1
                mode = "min" if (ki + W) % 2 == 0 else "max"
                cfg = dict(kind=kind, W=W, R=4, mode=mode, seed=seed, profile=prof, k=k,
                           stop={"max_num_trials_started": 4 if tier == "quick" else 5}, F=1 if (pi % 2 == 0) else 0,
                           faults=("crash", "ext_stop"), wait=(pi % 4 < 2), async_=True,
                           max_exec=400 if tier == "quick" else 6000)
                cfg["mra"] = (pi + ki) % 3 != 0     # every third configuration: jobs are not told where to stop
                cfg["async"] = not (W == 2 and pi % 8 == 3)
                cfg.pop("async_")
                out.append(cfg)

    # long runs: synchronous Hyperband / DEHB beyond their first bracket, PBT with a full population, many promotions
    for kind in ("shb", "dehb", "pbt", "hb-promotion", "hb-pasha", "moasha"):
        for prof in (tunerx.PROFILES[0], tunerx.PROFILES[7], tunerx.PROFILES[2]):
            for W in (2, 3):
                out.append(dict(kind=kind, W=W, R=4, mode="min", seed=seed, profile=prof, k=1 if tier == "quick" else 2,
                                stop={"max_num_trials_started": 10}, F=1, faults=("crash", "ext_stop"), wait=True, mra=(W == 2),
                                max_exec=120 if tier == "quick" else 2500, loop_cap=400, **{"async": True}))
    # finite search space whose size is not a multiple of n_workers: the space is used up in the middle of a batch of free
    # workers; the trials started earlier in that batch still have to be polled, reported and ended
    for W in (2, 3):
        for gs in (W + 1, 2 * W - 1):
            for prof in (tunerx.PROFILES[0], tunerx.PROFILES[5], tunerx.PROFILES[7]):
                out.append(dict(kind="fifo-grid", W=W, R=2, mode="min", seed=seed, profile=prof, k=1 if tier == "quick" else 2,
                                stop={"max_num_trials_started": 40}, F=0, faults=("crash",), wait=True, mra=False, grid_size=gs,
                                max_exec=150 if tier == "quick" else 2500, **{"async": True}))
    # the real simulator backend (tables, delays, outside-time choices): a sample of the C10 configurations
    from . import c10
    # (without the busy-query configurations of C10: with start_jobs_without_delay=False the simulator only counts a trial as
    # busy once its start event has been processed - observed, not triaged, see DESIGN 6.3)
    sims = [c for c in c10.configs(tier, seed) if c.get("nodelay", True)]
    for i, c in enumerate(sims):
        if i % (3 if tier == "quick" else 2) == 0:
            out.append(dict(c, sim=True, max_exec=40 if tier == "quick" else 600))
    # start_jobs_without_delay=False: the tuner asks the backend for busy workers; a job may exit between poll and query
    for kind in ("fifo-random", "hb-stopping", "hb-promotion"):
        for W in (2, 3):
            for burst in (False, True):
                out.append(dict(kind=kind, W=W, R=4, mode="min", seed=seed, profile=dict(burst=burst, rr=False, lag=True),
                                k=1 if tier == "quick" else 2, stop={"max_num_trials_started": 4}, F=0, faults=("crash",),
                                wait=True, max_exec=400 if tier == "quick" else 6000, nodelay=False, **{"async": True}))
    return out


def run(tier, seed):
    res = Result()
    cfgs = configs(tier, seed)
    seen = set()
    for cov, viols in pmap(task, cfgs):
        seen.update(cov.extra.get("protocol_transitions_seen", []))
        res.cov.merge(cov)
        res.violations.extend(viols)
    res.cov.extra["protocol_transitions_seen"] = sorted(seen)
    res.cov.extra["protocol_transitions_missing"] = sorted(EXPECTED_PROTO - seen)
    res.rule = ("Stateless deviation-bounded exploration of the real Tuner.run over ScriptedBackend: every execution with <=k "
                "non-default environment answers (results per poll, completion lag, crash/external stop, late results at "
                "kill, merge order of worker time stamps) around the listed default profiles, for scheduler kind x n_workers; "
                "oracle = post-hoc life-cycle / occupancy / call-protocol monitor over the unified event log. states = distinct "
                "(ground-truth status vector, delivered-count vector) at loop ends; transitions = loop iterations; "
                "distinct_nontrivial = distinct scheduler-visible traces.")
    res.bounds = {"configs": len(cfgs), "tier": tier}
    res.assumptions = list(env.ASSUMPTIONS) + [
        "LocalBackend's process/file layer replaced by ScriptedBackend (inherits the real fetch_status_results/start/resume/"
        "pause/stop/stop_all); kills are immediate",
        "scheduler clocks constant; Tuner sleep_time=0"]
    return res


def replay(data):
    cfg = dict(data["cfg"])
    if cfg.get("sim"):
        from . import c10
        ex = tunerx.run_tuner(c10.build_factory(cfg), tunerx.Chooser(data["choices"]), cfg.get("loop_cap", 400))
        vs = monitors.lifecycle(ex, cfg["W"], allow_exc=("LoopCap",))
        named = {k.split(":on-stale-result-of-previous-run:")[0]: k for k, _ in c10.check_factory(cfg)(ex)
                 if ":on-stale-result-of-previous-run:" in k}
        tunerx.clean_scratch()
        return [Violation(PROP, named.get(k, k), w) for k, w in vs]
    prof = cfg["profile"]
    if isinstance(prof, str):
        b, r, l = prof.split("/")
        cfg["profile"] = dict(burst=b == "burst", rr=r == "rr", lag=l == "lag")
    ex = tunerx.run_tuner(build_factory(cfg), tunerx.Chooser(data["choices"]), cfg.get("loop_cap", 150))
    tunerx.clean_scratch()
    return [Violation(PROP, k, w) for k, w in monitors.lifecycle(ex, cfg["W"])]
