"""C19 — multi-objective ranking is Pareto-consistent and MOASHA follows it.

Part 1 (mc.c19_enum): every ordered point set of a finite grid x every argument of pareto_efficient /
nondominated_sort / the MOPriority classes, against brute-force dominance.
Part 2 (this file + mc.refs.moasha): breadth-first search over event histories of the real MOASHA driven
through suggest/on_trial_add/on_trial_result/on_trial_remove/on_trial_complete, against a lock-step
reference of the documented rung rule (cut-off convention: see mc/refs/moasha.py).
"""
import contextlib
import io
import itertools

import numpy as np

from .. import env
from ..core import Result, pmap, Violation, HarnessError
from ..schedx import World, explore
from ..world import all_perms, rotate
from ..refs.moasha import MoashaRef, RungContents, moasha_levels
from .. import c19_enum

LEVEL = "model_checking"
PROP = "C19"

with contextlib.redirect_stdout(io.StringIO()):
    from syne_tune.optimizer.schedulers.multiobjective import moasha as _moasha_mod
    from syne_tune.optimizer.schedulers.multiobjective.multiobjective_priority import (
        NonDominatedPriority, FixedObjectivePriority, LinearScalarizationPriority)
# MOASHA.on_trial_add prints "adding trial <id>": shadow the builtin in that module's namespace (harness side)
_moasha_mod.print = lambda *a, **k: None

# (grace_period, reduction_factor, max_t, levels reported per trial R)
#   R == max_t: the last report hits max_t;  R < max_t: the script ends early -> on_trial_complete is exercised
SYSTEMS = {
    "g1rf2m4": dict(grace=1, rf=2, max_t=4, R=4),    # rungs 1,2        (bracket 1: 2)
    "g1rf3m4": dict(grace=1, rf=3, max_t=4, R=4),    # rungs 1,3        (bracket 1: 3)
    "g2rf2m5": dict(grace=2, rf=2, max_t=5, R=5),    # rungs 2,4        (bracket 1: 4)
    "g2rf3m4": dict(grace=2, rf=3, max_t=4, R=4),    # rung 2           (bracket 1: none)
    "g1rf2m5s": dict(grace=1, rf=2, max_t=5, R=3),   # rungs 1,2,4; scripts end at 3 (< max_t)
    "g1rf3m9": dict(grace=1, rf=3, max_t=9, R=4),    # rungs 1,3; scripts end at 4
    "g1rf2m8": dict(grace=1, rf=2, max_t=8, R=5),    # rungs 1,2,4; scripts end at 5
    "g2rf2m8": dict(grace=2, rf=2, max_t=8, R=8),    # rungs 2,4        (bracket 1: 4)
    "g1rf2m8e": dict(grace=1, rf=2, max_t=8, R=2),   # rungs 1,2,4; scripts end exactly AT rung level 2: the final result of a
                                                     # completing trial reaches the scheduler twice (result, then complete)
}

# per-metric base values in general position (distinct per metric; every weighted mean used below is
# separated by > 1e-3 from every other, asserted in build_table)
BASES = [
    [0.318, 1.207, 2.449, 3.061, 4.733, 5.392, 6.871],
    [0.211, 0.953, 1.871, 2.657, 3.389, 4.127, 5.063],
    [0.127, 1.009, 1.777, 2.903, 3.541, 4.409, 5.311],
]

MODES = {
    "none": None, "min": "min", "max": "max",
    "mm": ["min", "min"], "mM": ["min", "max"], "Mm": ["max", "min"], "MM": ["max", "max"],
    "m": ["min"], "M": ["max"], "mMm": ["min", "max", "min"], "MmM": ["max", "min", "max"],
}

PRIOS = {
    "default": ("nd", 0),        # MOASHA(multiobjective_priority=None) -> NonDominatedPriority()
    "nd0": ("nd", 0), "nd1": ("nd", 1), "ndN0": ("nd", None), "ndNL": ("nd", None),
    "fix": ("fixed", None), "fix1": ("fixed", 1),
    "lin": ("lin", None), "linw": ("lin", [0.3, 0.7, 0.45]),
}


def expand_modes(mode, k):
    """documented: one of "min"/"max" or a list of the same size as metrics; defaults to "min"."""
    if mode is None:
        return ["min"] * k
    if isinstance(mode, str):
        return [mode] * k
    return list(mode)


def make_priority(name, k):
    if name == "default":
        return None
    kind, arg = PRIOS[name]
    if kind == "nd":
        return NonDominatedPriority(dim=arg)
    if kind == "fixed":
        return FixedObjectivePriority(dim=arg)
    return LinearScalarizationPriority(weights=None if arg is None else list(arg[:k]))


def ref_prio(name, k):
    kind, arg = PRIOS[name]
    if kind == "lin" and arg is not None:
        arg = list(arg[:k])
    return kind, arg


def make_scheduler(cfg):
    sy = SYSTEMS[cfg["sys"]]
    k = cfg["k"]
    metrics = [f"m{i}" for i in range(k)]
    s = _moasha_mod.MOASHA(
        config_space={"a": 0.5, "epochs": sy["max_t"]}, metrics=metrics, mode=MODES[cfg["mode"]],
        time_attr="epoch", multiobjective_priority=make_priority(cfg["prio"], k), max_t=sy["max_t"],
        grace_period=sy["grace"], reduction_factor=sy["rf"], brackets=cfg["brackets"])
    return s, metrics


def build_table(cfg):
    """raw (as reported by the training script) objective tuples per trial and level.
    canonical value (all objectives minimised) of metric i for trial t at level r:
        BASES[i][perm_i_r[t]] - 0.013 * r      (perm_i_r from cfg["perms"][level], identity otherwise)
    raw value = canonical * (+1 for "min", -1 for "max") so that every mode list sees the same rank pattern."""
    sy = SYSTEMS[cfg["sys"]]
    T, k = cfg["T"], cfg["k"]
    signs = [1.0 if m == "min" else -1.0 for m in expand_modes(MODES[cfg["mode"]], k)]
    ident = tuple(range(T))
    tab = []
    for t in range(T):
        row = []
        for r in range(1, sy["R"] + 1):
            ps = cfg["perms"].get(str(r))
            row.append(tuple(signs[i] * (BASES[i][(tuple(ps[i]) if ps else ident)[t]] - 0.013 * r)
                             for i in range(k)))
        tab.append(row)
    return tab


class MoWorld(World):
    """World that owns MOASHA's use of the global np.random.choice:
      * on_trial_add draws the bracket  -> the explorer's ("S", b) event decides,
      * compute_epsilon_net(dim=None) draws the seed item -> fixed policy of the configuration (first/last)."""

    def __init__(self, sched, spec, oracles=()):
        super().__init__(sched, spec, oracles)
        if self.onehot is not None:      # HyperbandScheduler seam of the base class: not applicable here
            del sched.bracket_distribution
            self.onehot = None
        self._b = 0
        self.seed_policy = spec.get("seed_policy", "first")

    def _choice(self, a, size=None, replace=True, p=None):
        k = int(a)
        if p is not None:
            b = self._b or 0
            if k != max(self.nb, 1) or not (0 <= b < k) or not p[b] > 0:
                raise HarnessError(f"bracket draw: choice({a}, p={p}) cannot answer {b}")
            return b
        return 0 if self.seed_policy == "first" else k - 1

    @contextlib.contextmanager
    def rng_stub(self):
        old = np.random.choice
        np.random.choice = self._choice
        try:
            yield
        finally:
            np.random.choice = old

    def step(self, ev):
        if ev[0] == "S":
            self._b = ev[1] or 0
        with self.rng_stub():
            return super().step(ev)


def build_world(cfg):
    sy = SYSTEMS[cfg["sys"]]
    np.random.seed(cfg.get("seed", 0))  # any np.random use the harness does not own is at least reproducible
    s, metrics = make_scheduler(cfg)
    nb = cfg["brackets"]
    spec = dict(W=cfg["W"], T=cfg["T"], R=sy["R"], table=build_table(cfg), metrics=metrics,
                brackets=nb if nb > 1 else 0, seed_policy="last" if cfg["prio"] == "ndNL" else "first",
                reverse_metric_keys=bool(cfg.get("revkeys")))
    ref = MoashaRef(metrics, expand_modes(MODES[cfg["mode"]], cfg["k"]), sy["grace"], sy["rf"], sy["max_t"], nb,
                    ref_prio(cfg["prio"], cfg["k"]))
    w = MoWorld(s, spec, [ref, RungContents(ref)])
    w.ref = ref
    return w


def check_general_position(cfg):
    """harness self-check: the scalar priorities used by the reference are well separated at every level"""
    tab = build_table(cfg)
    k = cfg["k"]
    signs = [1.0 if m == "min" else -1.0 for m in expand_modes(MODES[cfg["mode"]], k)]
    kind, arg = ref_prio(cfg["prio"], k)
    if kind == "nd":
        return
    for r in range(len(tab[0])):
        vals = []
        for t in range(cfg["T"]):
            c = [s * x for s, x in zip(signs, tab[t][r])]
            vals.append(c[arg or 0] if kind == "fixed" else
                        sum(w * x for w, x in zip(arg or [1.0] * k, c)) / k)
        vs = sorted(vals)
        if any(b - a < 1e-3 for a, b in zip(vs, vs[1:])):
            raise HarnessError(f"table not in general position for {cfg}: {vs}")


def ctx_of(cfg):
    return ""


def label(cfg):
    return {k: cfg[k] for k in sorted(cfg)}


def task(cfg):
    check_general_position(cfg)
    stats = {}

    def on_state(w, h):  # coverage only: which clause of the documented rule decided this transition
        if h[-1][0] == "R" and w.ref.last_why:
            name = "rule_" + w.ref.last_why
            stats[name] = stats.get(name, 0) + 1
        return None

    cov, viols = explore(lambda: build_world(cfg), PROP, label(cfg), max_depth=cfg.get("D"),
                         max_states=cfg.get("max_states"), ctx=ctx_of(cfg), want_samples=2, on_state=on_state)
    cov.extra.update(stats)
    cov.outcome("cfg:prio=" + PRIOS[cfg["prio"]][0] + ("(default)" if cfg["prio"] == "default" else ""))
    cov.outcome("cfg:mode=" + cfg["mode"])
    cov.outcome("cfg:sys=" + cfg["sys"] + "/b" + str(cfg["brackets"]))
    return cov, viols


# --------------------------------------------------------------------------------- configs

def level_perms(T, k, levels, p_pair, idx):
    """perms per rung level: the first rung level gets the enumerated pair/triple, the next ones a derived,
    different pattern (reverse of metric 0, rotation of the others)."""
    perms = {}
    for j, lv in enumerate(levels):
        if j == 0:
            perms[str(lv)] = [list(p) for p in p_pair]
        else:
            q = []
            for i, p in enumerate(p_pair):
                p = tuple(p)
                if i == 0:
                    q.append([T - 1 - x for x in p] if (idx + j) % 2 else list(p))
                else:
                    q.append([(x + j + idx) % T for x in p])
            perms[str(lv)] = q
    return perms


MODES2 = ["none", "min", "max", "mm", "mM", "Mm", "MM"]


def family(out, seed, systems, nbs, prios, T, W, n_tab, cap, tabs="rot", pick=None):
    """systems x brackets x priorities; the mode spec and the objective-rank tables rotate with a running
    index so that every mode spec meets every priority / system and the second objective's permutation walks
    through all T! orders (tabs="all": every permutation for every combination)."""
    ps = all_perms(T)
    for si, sname in enumerate(systems):
        sy = SYSTEMS[sname]
        levels = [lv for lv in moasha_levels(sy["grace"], sy["rf"], sy["max_t"], 0) if lv <= sy["R"]]
        for nb in nbs:
            sel_prios = list(enumerate(prios))
            if pick:  # a rotating subset of the priorities per system (all of them occur over the systems)
                sel_prios = [sel_prios[(si * pick + j + seed) % len(prios)] for j in range(pick)]
            for pi_, prio in sel_prios:
                ci = len(out)
                if tabs == "all":
                    sel = list(range(len(ps)))
                else:
                    sel = [(seed * 5 + ci * 7 + 11 * j) % len(ps) for j in range(n_tab)]
                for j, pi in enumerate(sel):
                    p0 = (tuple(range(T)), tuple(reversed(range(T))), tuple(rotate(list(range(T)), 1 + j % (T - 1))))[
                        (ci + j) % 3 if tabs != "all" else 0]
                    mode = MODES2[(3 * si + pi_ + j + seed) % len(MODES2)]
                    out.append(dict(sys=sname, brackets=nb, prio=prio, mode=mode, k=2, T=T, W=W,
                                    perms=level_perms(T, 2, levels, (p0, ps[pi]), j), max_states=cap, seed=seed,
                                    revkeys=(len(out) % 2 == 1)))   # every other world: objectives reported in reverse key order


def configs(tier, seed):
    out = []
    quick = tier == "quick"
    if quick:
        systems = ["g1rf2m4", "g1rf3m4", "g2rf2m5", "g2rf3m4", "g1rf2m5s"]
        prios = ["default", "nd1", "ndNL", "fix", "fix1", "lin", "linw"]
        family(out, seed, systems, (1,), prios, T=4, W=2, n_tab=4, cap=20000)
        family(out, seed, systems, (2,), prios, T=4, W=2, n_tab=1, cap=20000, pick=3)
        family(out, seed, ["g1rf2m4"], (1,), ["default", "fix1", "lin"], T=5, W=2, n_tab=3, cap=20000)
        # six entries in one rung: the smallest n where rf=2 and rf=3 both separate "must" from the open boundary twice
        family(out, seed, ["g1rf2m4", "g1rf3m4"], (1,), ["default", "fix1", "lin"], T=6, W=2, n_tab=1, cap=20000)
    else:
        systems = list(SYSTEMS)
        prios = list(PRIOS)
        cap = 400000
        small = ["g1rf2m4", "g1rf3m4", "g2rf2m5", "g2rf3m4", "g1rf2m5s"]
        long_ = ["g1rf3m9", "g1rf2m8", "g2rf2m8"]
        # every one of the 5! rank patterns of the second objective against the first, for each kind of priority
        family(out, seed, ["g1rf2m4"], (1,), ["default", "fix1"], T=5, W=2, n_tab=0, cap=cap, tabs="all")
        family(out, seed, ["g1rf3m4"], (1,), ["nd1", "lin"], T=5, W=2, n_tab=0, cap=cap, tabs="all")
        # sizes below were measured (cpu-s per configuration) so that no single configuration exceeds ~150 cpu-s
        family(out, seed, small, (1,), prios, T=6, W=2, n_tab=1, cap=cap, pick=4)
        family(out, seed, long_, (1,), prios, T=4, W=2, n_tab=1, cap=cap, pick=5)
        family(out, seed, small, (1,), prios, T=4, W=3, n_tab=1, cap=cap, pick=4)
        family(out, seed, ["g1rf2m4", "g1rf3m4", "g2rf2m5"], (1,), ["default", "ndNL", "fix1", "linw"],
               T=5, W=3, n_tab=1, cap=cap, pick=1)
        family(out, seed, systems, (2,), prios, T=4, W=2, n_tab=1, cap=cap, pick=4)
        family(out, seed, ["g1rf3m4", "g1rf2m4"], (2,), ["default", "linw", "fix1"], T=4, W=3, n_tab=1, cap=cap,
               pick=1)
    cap = 20000 if quick else 400000
    ci = len(out)
    # single objective (the Pareto order degenerates to a total order) and three objectives
    for sname in (["g1rf2m4", "g1rf2m8e"] if quick else ["g1rf2m4", "g1rf3m4", "g1rf2m8", "g1rf2m8e"]):
        sy = SYSTEMS[sname]
        levels = [lv for lv in moasha_levels(sy["grace"], sy["rf"], sy["max_t"], 0) if lv <= sy["R"]]
        T1 = 5
        for prio in ("default", "fix", "lin"):
            for mode in ("m", "M"):
                p = rotate(all_perms(T1), seed * 3 + ci)
                sel = [(4, 0, 1, 2, 3)] + [tuple(x) for x in p[:(1 if quick else 2)]]
                for j, p0 in enumerate(sel):
                    out.append(dict(sys=sname, brackets=1, prio=prio, mode=mode, k=1, T=T1, W=1 if j == 0 else 2,
                                    perms=level_perms(T1, 1, levels, (p0,), j), max_states=cap, seed=seed))
                ci += 1
        for prio in ("default", "ndNL", "fix1", "linw"):
            for mode in ("mMm", "MmM", "none"):
                p = rotate(all_perms(4), seed * 3 + ci)
                for j in range(1):
                    trip = (tuple(range(4)), p[j], p[(7 * j + 5) % len(p)])
                    out.append(dict(sys=sname, brackets=1, prio=prio, mode=mode, k=3, T=4,
                                    W=3 if (not quick and mode == "none" and sname != "g1rf2m8") else 2,
                                    perms=level_perms(4, 3, levels, trip, j), max_states=cap, seed=seed))
                ci += 1
    return out


# ------------------------------------------------------------------------------------- run

def run(tier, seed):
    res = Result()
    c19_enum.self_check()
    # part 1
    plan = c19_enum.plan(tier)
    etasks = []
    for vals, d, n, spec in plan:
        etasks += c19_enum.tasks_for(vals, d, n, spec)
    cfgs = configs(tier, seed)
    # one pool for both parts (load balance): tag the tasks
    cfgs.sort(key=lambda c: -(c["T"] * (10 if c["W"] >= 3 else 1) * (6 if c["brackets"] > 1 else 1)))  # big first
    jobs = [("mo", c) for c in cfgs] + [("enum", t) for t in etasks]
    outs = pmap(_job, jobs)
    seen_enum = {}
    samples = {"mo": [], "enum": []}
    for (kind, _), (cov, payload) in zip(jobs, outs):
        samples[kind] += cov.samples[-1:] if len(samples[kind]) < 3 else []
        cov.samples = []
        res.cov.merge(cov)
        if kind == "mo":
            res.violations.extend(payload)
        else:
            for key, what, rp in payload:
                if key not in seen_enum:
                    seen_enum[key] = Violation(PROP, key, what, dict(rp, engine="enum"))
    res.cov.samples = samples["mo"][:3] + samples["enum"][:3]
    # report the simplest witness per key (fewest objectives / events), independent of the job order
    res.violations.sort(key=lambda v: (v.replay["cfg"]["k"], len(v.replay["history"]), v.replay["cfg"]["T"],
                                       v.replay["cfg"]["brackets"]))
    res.violations.extend(seen_enum.values())
    res.rule = (
        "Part 1: every ordered sequence of n grid points (ties, duplicates) x dim in {None (every answer of the owned "
        "np.random.choice), 0..d-1} x max_items in {None,1..n+1} x flatten, real pareto_efficient/nondominated_sort/"
        "MOPriority classes vs brute-force dominance; distinct_nontrivial counts distinct point sequences with >= 2 "
        "points that have >= 2 Pareto layers or a coordinate tie (measured), evaluations = calls of the real "
        "functions. Part 2: BFS over event histories {suggest(bracket), report(t), complete(t)} of the real MOASHA with "
        "digest dedup; configuration = rung system x brackets x mode spec x priority x objective-rank permutations; "
        "oracle = lock-step reference of the documented rung rule + rung-content invariant; states = distinct "
        "(implementation object graph, driver, reference) digests.")
    res.bounds = {"tier": tier, "moasha_configs": len(cfgs), "enum_plan": [list(map(str, p)) for p in plan],
                  "enum_tasks": len(etasks)}
    res.assumptions = list(env.ASSUMPTIONS) + [
        "np.random.choice replaced for the duration of every scheduler call: MOASHA.on_trial_add's bracket draw is "
        "answered by the explorer's suggest(bracket) event (any bracket has positive probability under the softmax), "
        "compute_epsilon_net(dim=None)'s seed draw by a per-configuration policy (first/last) in part 2 and by "
        "every answer vector in part 1",
        "print() shadowed in the moasha module namespace (on_trial_add prints one line per trial)",
        "MOASHA config_space holds constants only (decisions never read the configuration)",
        "every level 1..R is reported by every running trial (resource attr 'epoch'); metric tables in general "
        "position; the rank one place above the top-1/rf cut (r = floor(n/rf)+1) may go either way (documents "
        "leave floor(n/rf) vs (r-1)/n <= 1/rf open)",
    ]
    res.cov.extra["boundary_rule"] = "b*rf<=n must continue; a*rf>n must stop; else both accepted"
    for k in ("cpu_s_mo", "cpu_s_enum"):
        if k in res.cov.extra:
            res.cov.extra[k] = int(res.cov.extra[k])
    return res


def _job(j):
    import time
    kind, t = j
    c0 = time.process_time()
    out = task(t) if kind == "mo" else c19_enum.task(t)
    out[0].extra["cpu_s_" + kind] = time.process_time() - c0   # diagnostic only (sizing of the tiers)
    return out


def replay(data):
    out = []
    if data.get("engine") == "enum":
        for k, w in c19_enum.replay_case(data):
            out.append(Violation(PROP, k, w))
        return out
    cfg = data["cfg"]
    hist = [tuple(e) for e in data["history"]]
    w = build_world(cfg)
    ctx = ctx_of(cfg)
    for ev in hist:
        if ev not in w.enabled():
            raise RuntimeError(f"replay diverged: {ev} not enabled after {w.trace}")
        obs, vs = w.step(ev)
        if obs[0] == "EXC":
            out.append(Violation(PROP, f"{ctx}exc:{obs[1]}@{obs[2]}", obs[3]))
        for k, what in vs:
            out.append(Violation(PROP, f"{ctx}{k}", what))
    return out
