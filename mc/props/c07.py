"""C07 — domains: samples / casts / decoded vectors are members; encoding round-trips; JSON round-trips.

Bounded-exhaustive enumeration (Engine C): constructor x parameter lattice (mc/c07_ref.py) and, for every
domain, a finite lattice of inputs per clause.  Every case is one ``(specs, clause, case)`` triple that
``replay`` can re-run on its own.

Clauses
  construct  the domain / HyperparameterRanges can be built for legal parameters; advertised sizes
  sample     Domain.sample with a stub random_state answering every point of a small alphabet (sizes 1, 3)
  cast       cast(member) is that member
  decode     from_ndarray on a lattice of the unit cube (corners, EPS, rounding-cell boundaries)
  roundtrip  to_ndarray -> from_ndarray of members (length, unit cube, exact / rel 1e-7)
  active     active_config_space sub-ranges: bounds, decode inside the box, members encode into the box
  fixed      name_last_pos / value_for_last_pos: bounds collapse, decode and random_config give the value
  json       config_space_to_json_dict -> json -> config_space_from_json_dict: equal, identical encoding
The membership oracle is ``c07_ref.member`` (from constructor arguments, independent of Domain.is_valid).
"""
import itertools
import json

import numpy as np

from .. import env
from ..core import Result, Coverage, Violation, pmap
from .. import c07_ref as R

LEVEL = "exploration"
PROP = "C07"

T_1D = [0.0, 1e-9, 0.25, 0.5, 0.75, 1.0 - 1e-9, 1.0]   # relative positions inside one coordinate's bounds
T_HOT = [0.0, 0.5, 1.0]


# ------------------------------------------------------------------ implementation side

def build(spec):
    from syne_tune import config_space as cs
    c = spec[0]
    if c in ("uniform", "loguniform", "reverseloguniform", "randint", "lograndint"):
        return getattr(cs, c)(spec[1], spec[2])
    if c in R.QUANT_CTORS:
        return getattr(cs, c)(spec[1], spec[2], spec[3])
    if c == "choice":
        return cs.choice(list(spec[1]))
    if c == "ordinal":
        return cs.ordinal(list(spec[1]), kind=spec[2])
    if c in R.FIN_CTORS:
        _, lo, hi, size, ci = spec
        if size == 1:
            # finrange()/logfinrange() document size >= 2; the class itself accepts size 1 (and
            # restrict_domain produces it), so size 1 is built through the class
            return cs.FiniteRange(lo, hi, size, log_scale=(c == "logfinrange"), cast_int=ci)
        return getattr(cs, c)(lo, hi, size, cast_int=ci)
    raise ValueError(spec)


def make_ranges(space, **kw):
    from syne_tune.optimizer.schedulers.searchers.utils.hp_ranges_factory import make_hyperparameter_ranges
    return make_hyperparameter_ranges(space, **kw)


def _exc(e):
    return "exception-" + type(e).__name__


def _short(x, n=160):
    s = repr(x)
    return s if len(s) <= n else s[:n] + "..."


class Ctx:
    """Built objects for one space of 1..3 domains."""

    def __init__(self, specs):
        self.specs = [R.as_json(s) for s in specs]
        self.names = ["x"] if len(self.specs) == 1 else [f"p{i}" for i in range(len(self.specs))]
        self.domains = [build(s) for s in self.specs]
        self._hp = {}
        self.obs = None   # what the implementation returned in the last evaluated case (for coverage)

    def space(self):
        return dict(zip(self.names, self.domains))

    def hp(self, active=None, last=None):
        """active = (pos, aspec) ; last = (pos, value)"""
        k = json.dumps([active, last], sort_keys=True, default=repr)
        if k not in self._hp:
            kw = {}
            if active is not None:
                kw["active_config_space"] = {self.names[active[0]]: build(active[1])}
            if last is not None:
                kw["name_last_pos"] = self.names[last[0]]
                kw["value_for_last_pos"] = last[1]
            try:
                self._hp[k] = make_ranges(self.space(), **kw)
            except Exception as e:  # noqa: BLE001
                self._hp[k] = e
        return self._hp[k]

    def member_values(self, i, reduced=False):
        s = self.specs[i]
        if s[0] in R.FIN_CTORS:
            vals = [v for v in list(self.domains[i].values) if R.member(s, v) is None]
            return R.members(s, impl_values=R._dedup(vals), reduced=reduced)
        return R.members(s, reduced=reduced)

    def sizes(self):
        return [R.enc_size(s) for s in self.specs]

    def order(self, hp):
        """positions of the domains in the internal (encoded) order, read from the implementation's
        documented ``internal_keys`` (sorted names, name_last_pos moved to the end)."""
        return [self.names.index(n) for n in hp.internal_keys]


# ------------------------------------------------------------------ clause: construct

def cases_construct(ctx, reduced):
    yield {}


def eval_construct(ctx, case):
    out = []
    for s, d in zip(ctx.specs, ctx.domains):
        if s[0] in R.FIN_CTORS:
            vals = list(d.values)
            if len(vals) != s[3]:
                out.append((R.key("construct", s, "values-wrong-count"), f"{s}: {len(vals)} values"))
            for v in vals:
                r = R.member(s, v)
                if r:
                    out.append((R.key("construct", s, "values-" + r), f"{s}: listed value {v!r} is not a member"))
    hp = ctx.hp()
    ctx.obs = "exc" if isinstance(hp, Exception) else int(hp.ndarray_size)
    if isinstance(hp, Exception):
        s = ctx.specs[0] if len(ctx.specs) == 1 else next(
            (t for t in ctx.specs if isinstance(Ctx([t]).hp(), Exception)), ctx.specs[0])
        out.append((R.key("construct-ranges", s, _exc(hp)),
                    f"make_hyperparameter_ranges({ctx.specs}) raised {type(hp).__name__}: {str(hp)[:120]}"))
        return out
    if int(hp.ndarray_size) != sum(ctx.sizes()):
        out.append((R.key("construct-ranges", ctx.specs[0], "wrong-ndarray-size"),
                    f"{ctx.specs}: ndarray_size {hp.ndarray_size} != {sum(ctx.sizes())}"))
    return out


# ------------------------------------------------------------------ clause: sample

def cases_sample(ctx, reduced):
    if len(ctx.specs) > 1:
        for p in range(5):
            yield {"random_config": p}
        return
    rs = R.StubRS((0,))
    try:
        ctx.domains[0].sample(size=1, random_state=rs)
    except Exception:  # noqa: BLE001
        pass
    K = max(rs.K, 1)
    for p in range(K):
        yield {"size": 1, "picks": [p]}
    if reduced:
        for p in range(K):
            yield {"size": 3, "picks": [p, (p + 1) % K, (p + 2) % K]}
    else:
        for t in itertools.product(range(K), repeat=3):
            yield {"size": 3, "picks": list(t)}


def _check_sampled(spec, v, clause="sample"):
    out = []
    r = R.member(spec, v)
    if r:
        out.append((R.key(clause, spec, r), f"{spec}: value {v!r} ({type(v).__name__}) is not a member"))
    elif spec[0] in R.QUANT_CTORS and "q-not-dividing-bounds" not in R.tags(spec) \
            and not R.is_multiple_of_q(v, spec[3]):
        out.append((R.key(clause, spec, "not-multiple-of-q"), f"{spec}: value {v!r} is not a multiple of q"))
    return out


def eval_sample(ctx, case):
    out = []
    if "random_config" in case:
        hp = ctx.hp()
        if isinstance(hp, Exception):
            return out
        try:
            cfg = hp.random_config(R.StubRS((case["random_config"],)))
        except Exception as e:  # noqa: BLE001
            return [(R.key("sample", ctx.specs[0], "random_config-" + _exc(e)), f"{ctx.specs}: {e}")]
        ctx.obs = cfg
        for n, s in zip(ctx.names, ctx.specs):
            out += _check_sampled(s, cfg.get(n))
        return out
    spec, dom = ctx.specs[0], ctx.domains[0]
    size = case["size"]
    try:
        res = dom.sample(size=size, random_state=R.StubRS(case["picks"]))
    except Exception as e:  # noqa: BLE001
        return [(R.key("sample", spec, _exc(e)), f"{spec}.sample(size={size}) raised {type(e).__name__}: {e}")]
    ctx.obs = res
    if size == 1:
        if isinstance(res, (list, tuple, np.ndarray)):
            return [(R.key("sample", spec, "size1-not-scalar"), f"{spec}: sample(size=1) -> {_short(res)}")]
        vals = [res]
    else:
        if not isinstance(res, list) or len(res) != size:
            return [(R.key("sample", spec, "sizeN-not-list-of-N"), f"{spec}: sample(size={size}) -> {_short(res)}")]
        vals = res
    for v in vals:
        for k, w in _check_sampled(spec, v):
            if size > 1 and ":wrong-type-" in k:
                k = k.replace(":wrong-type-", ":sizeN-wrong-type-")
            out.append((k, w + f" (size={size}, stub picks {case['picks']})"))
    return out


# ------------------------------------------------------------------ clause: cast

def cases_cast(ctx, reduced):
    if len(ctx.specs) > 1:
        return
    for v in ctx.member_values(0):
        yield {"v": v}


def eval_cast(ctx, case):
    spec, dom, v = ctx.specs[0], ctx.domains[0], case["v"]
    try:
        c = dom.cast(v)
    except Exception as e:  # noqa: BLE001
        return [(R.key("cast", spec, _exc(e)), f"{spec}.cast({v!r}) raised {type(e).__name__}: {e}")]
    ctx.obs = c
    r = R.member(spec, c)
    if r:
        return [(R.key("cast", spec, r), f"{spec}.cast({v!r}) = {c!r} is not a member")]
    if not R.same_value(spec, v, c):
        return [(R.key("cast", spec, "member-changed"), f"{spec}.cast({v!r}) = {c!r}")]
    return []


# ------------------------------------------------------------------ clause: decode

def _vec_lattice(ctx, hp, reduced, fine=False):
    order = ctx.order(hp)
    per = [R.unit_lattice(ctx.specs[i], reduced=reduced or len(ctx.specs) > 1, fine=fine) for i in order]
    for combo in itertools.product(*per):
        yield [x for part in combo for x in part]


def cases_decode(ctx, reduced):
    hp = ctx.hp()
    if isinstance(hp, Exception):
        return
    for vec in _vec_lattice(ctx, hp, False, fine=not reduced):
        yield {"vec": vec}


def _check_decoded(ctx, cfg, clause, what):
    out = []
    for n, s in zip(ctx.names, ctx.specs):
        if n not in cfg:
            out.append((R.key(clause, s, "missing-key"), f"{what}: no key {n}"))
            continue
        r = R.member(s, cfg[n])
        if r:
            out.append((R.key(clause, s, r), f"{what}: {n} = {cfg[n]!r} ({type(cfg[n]).__name__}) not a member of {s}"))
    return out


def eval_decode(ctx, case):
    hp = ctx.hp()
    if isinstance(hp, Exception):
        return []
    vec = case["vec"]
    try:
        cfg = hp.from_ndarray(np.array(vec, dtype=float))
    except Exception as e:  # noqa: BLE001
        return [(R.key("decode", ctx.specs[0], _exc(e)),
                 f"{ctx.specs}: from_ndarray({vec}) raised {type(e).__name__}: {str(e)[:100]}")]
    ctx.obs = cfg
    return _check_decoded(ctx, cfg, "decode", f"{ctx.specs}: from_ndarray({vec})")


# ------------------------------------------------------------------ clause: roundtrip

def cases_roundtrip(ctx, reduced):
    if isinstance(ctx.hp(), Exception):
        return
    single = len(ctx.specs) == 1
    per = [ctx.member_values(i, reduced=not single) for i in range(len(ctx.specs))]
    for combo in itertools.product(*per):
        yield {"config": list(combo)}


def _check_encoding(ctx, hp, enc, what):
    out = []
    enc = np.asarray(enc)
    n = sum(ctx.sizes())
    if enc.shape != (n,) or int(hp.ndarray_size) != n:
        out.append((R.key("roundtrip", ctx.specs[0], "wrong-length"),
                    f"{what}: shape {enc.shape}, ndarray_size {hp.ndarray_size}, expected {n}"))
        return out
    if not np.all((enc >= 0.0) & (enc <= 1.0)):
        out.append((R.key("roundtrip", ctx.specs[0], "outside-unit-cube"), f"{what}: {enc.tolist()}"))
    return out


def eval_roundtrip(ctx, case):
    hp = ctx.hp()
    if isinstance(hp, Exception):
        return []
    cfg = dict(zip(ctx.names, case["config"]))
    what = f"{ctx.specs}: config {cfg}"
    try:
        enc = hp.to_ndarray(dict(cfg))
    except Exception as e:  # noqa: BLE001
        bad = ctx.specs[0]
        for n, s in zip(ctx.names, ctx.specs):
            try:
                Ctx([s]).hp().to_ndarray({"x": cfg[n]})
            except Exception:  # noqa: BLE001
                bad = s
                break
        return [(R.key("roundtrip", bad, "encode-" + _exc(e)), f"{what}: to_ndarray raised {type(e).__name__}: "
                 f"{str(e)[:100]}")]
    out = _check_encoding(ctx, hp, enc, what)
    if out:
        return out
    try:
        dec = hp.from_ndarray(enc)
    except Exception as e:  # noqa: BLE001
        return [(R.key("roundtrip", ctx.specs[0], "decode-" + _exc(e)), f"{what}: from_ndarray raised {e}")]
    ctx.obs = (enc.tolist(), dec)
    for n, s in zip(ctx.names, ctx.specs):
        if n not in dec or not R.same_value(s, cfg[n], dec[n]):
            reason = "beyond-rel-1e-7" if R.is_continuous(s) else "not-exact"
            out.append((R.key("roundtrip", s, reason), f"{what}: {n} encodes to {enc.tolist()} and decodes to "
                        f"{dec.get(n)!r}"))
    return out


# ------------------------------------------------------------------ clause: active

def _box_vec(bounds, tvec):
    return [a + t * (b - a) if t not in (0.0, 1.0) else (a if t == 0.0 else b) for (a, b), t in zip(bounds, tvec)]


def _t_lattice(ctx, order, reduced):
    per = []
    for i in order:
        k = R.enc_size(ctx.specs[i])
        if k == 1 and not (ctx.specs[i][0] == "choice" and len(ctx.specs[i][1]) == 1):
            per.append([[t] for t in (T_HOT if reduced else T_1D)])
        elif reduced:
            vs = [[0.0] * k, [1.0] + [0.0] * (k - 1), [0.0] * (k - 1) + [1.0], [0.5] * k, [1.0] * k]
            per.append([list(v) for v in R._dedup(tuple(v) for v in vs)])
        else:
            per.append([list(t) for t in itertools.product(T_HOT, repeat=k)])
    for combo in itertools.product(*per):
        yield [x for part in combo for x in part]


def cases_active(ctx, reduced):
    if isinstance(ctx.hp(), Exception):
        return
    single = len(ctx.specs) == 1
    for pos, s in enumerate(ctx.specs):
        for aspec in R.active_subspecs(s, reduced=not single):
            base = {"pos": pos, "aspec": aspec}
            yield dict(base, what="bounds")
            hp = ctx.hp(active=(pos, aspec))
            if isinstance(hp, Exception):
                continue
            for t in _t_lattice(ctx, ctx.order(hp), not single):
                yield dict(base, what="decode", t=t)
            for v in R.members(aspec, reduced=not single):
                yield dict(base, what="encode", v=v)
            for p in range(5 if single else 2):
                yield dict(base, what="sample", pick=p)


def _bounds_ok(bounds, n):
    if len(bounds) != n:
        return f"{len(bounds)} bounds for {n} coordinates"
    for a, b in bounds:
        if not (0.0 <= a <= b <= 1.0):
            return f"bound ({a}, {b}) not an interval inside [0,1]"
    return None


def eval_active(ctx, case):
    pos, aspec, what = case["pos"], case["aspec"], case["what"]
    spec = ctx.specs[pos]
    name = ctx.names[pos]
    try:
        build(aspec)
    except Exception as e:  # noqa: BLE001
        return [(R.key("active", spec, "active-domain-" + _exc(e)), f"build({aspec}) raised {e}")]
    hp = ctx.hp(active=(pos, aspec))
    descr = f"{ctx.specs} active {name}={aspec}"
    if isinstance(hp, Exception):
        if what != "bounds":
            return []
        return [(R.key("active", spec, "construct-" + _exc(hp)), f"{descr}: raised {type(hp).__name__}: "
                 f"{str(hp)[:100]}")]
    try:
        bounds = [(float(a), float(b)) for a, b in hp.get_ndarray_bounds()]
    except Exception as e:  # noqa: BLE001
        return [(R.key("active", spec, "bounds-" + _exc(e)), f"{descr}: get_ndarray_bounds raised {e}")]
    n = sum(ctx.sizes())
    ctx.obs = (aspec, bounds)
    if what == "bounds":
        msg = _bounds_ok(bounds, n)
        return [(R.key("active", spec, "bad-bounds"), f"{descr}: {msg}")] if msg else []
    if _bounds_ok(bounds, n):
        return []
    order = ctx.order(hp)
    if what == "decode":
        vec = _box_vec(bounds, case["t"])
        try:
            cfg = hp.from_ndarray(np.array(vec, dtype=float))
        except Exception as e:  # noqa: BLE001
            return [(R.key("active", spec, "decode-" + _exc(e)), f"{descr}: from_ndarray({vec}) raised {e}")]
        ctx.obs = (aspec, cfg)
        out = _check_decoded(ctx, cfg, "decode", f"{descr}: from_ndarray({vec})")
        if not out:
            r = R.member_active(spec, aspec, cfg[name])
            if r:
                extra = ""
                if spec[0] == "choice" and R.enc_size(spec) > 1:
                    off = sum(R.enc_size(ctx.specs[i]) for i in order[:order.index(pos)])
                    seg = vec[off:off + R.enc_size(spec)]
                    if max(seg) == 0.0:
                        extra = "-all-zero-onehot"
                out.append((R.key("active-decode", spec, "outside-active-" + r + extra),
                            f"{descr}: vector {vec} inside bounds {bounds} decodes {name} = {cfg[name]!r}"))
        return out
    if what == "encode":
        v = case["v"]
        cfg = {}
        for i, (nm, s) in enumerate(zip(ctx.names, ctx.specs)):
            cfg[nm] = v if i == pos else ctx.member_values(i, reduced=True)[0]
        try:
            enc = hp.to_ndarray(cfg)
        except Exception as e:  # noqa: BLE001
            return [(R.key("active", spec, "encode-" + _exc(e)), f"{descr}: to_ndarray({cfg}) raised {e}")]
        ctx.obs = (aspec, enc.tolist())
        off = sum(R.enc_size(ctx.specs[i]) for i in order[:order.index(pos)])
        for j in range(R.enc_size(spec)):
            a, b = bounds[off + j]
            if not (a <= float(enc[off + j]) <= b):
                return [(R.key("active", spec, "member-encodes-outside-bounds"),
                         f"{descr}: member {v!r} encodes to {enc.tolist()} outside bounds {bounds}")]
        return []
    if what == "sample":
        try:
            cfg = hp.random_config(R.StubRS((case["pick"],)))
        except Exception as e:  # noqa: BLE001
            # sampling the active domain itself is clause 'sample' of that domain (reported there)
            try:
                build(aspec).sample(random_state=R.StubRS((case["pick"],)))
            except Exception:  # noqa: BLE001
                return []
            return [(R.key("active", spec, "random_config-" + _exc(e)), f"{descr}: {e}")]
        ctx.obs = (aspec, cfg)
        r = R.member(aspec, cfg.get(name))
        if r and R.member(aspec, build(aspec).sample(random_state=R.StubRS((case["pick"],)))) is None:
            return [(R.key("active", spec, "random_config-outside-active-" + r), f"{descr}: {cfg}")]
        return []
    raise ValueError(case)


# ------------------------------------------------------------------ clause: fixed last position

def cases_fixed(ctx, reduced):
    if isinstance(ctx.hp(), Exception):
        return
    single = len(ctx.specs) == 1
    for pos in range(len(ctx.specs)):
        vals = ctx.member_values(pos, reduced=not single)
        if single and len(vals) > 5:
            vals = [vals[0], vals[1], vals[len(vals) // 2], vals[-2], vals[-1]]
        for v in vals:
            base = {"pos": pos, "value": v}
            yield dict(base, what="bounds")
            hp = ctx.hp(last=(pos, v))
            if isinstance(hp, Exception):
                continue
            others = [o for o in ctx.member_values(pos, reduced=True) if not R.same_value(ctx.specs[pos], o, v)]
            if others:
                # the value is re-assigned on a ranges object that has already answered a bounds query for another value
                # (what a multi-fidelity searcher does before every suggestion)
                yield dict(base, what="reassign", other=others[0])
            for t in _t_lattice(ctx, ctx.order(hp), not single):
                yield dict(base, what="decode", t=t)
            for p in range(3 if single else 1):
                yield dict(base, what="sample", pick=p)


def eval_fixed(ctx, case):
    pos, v, what = case["pos"], case["value"], case["what"]
    spec, name = ctx.specs[pos], ctx.names[pos]
    hp = ctx.hp(last=(pos, v))
    descr = f"{ctx.specs} name_last_pos={name} value_for_last_pos={v!r}"
    if what == "reassign":
        if isinstance(hp, Exception):
            return []
        try:
            want = [(float(a), float(b)) for a, b in hp.get_ndarray_bounds()]
            hp2 = make_ranges(ctx.space(), name_last_pos=name, value_for_last_pos=case["other"])   # fresh, mutated below
            hp2.get_ndarray_bounds()
            hp2.value_for_last_pos = v
            got = [(float(a), float(b)) for a, b in hp2.get_ndarray_bounds()]
            cfg = hp2.random_config(R.StubRS((0,)))
        except Exception as e:  # noqa: BLE001
            return [(R.key("fixed", spec, "reassign-" + _exc(e)), f"{descr} (re-assigned from {case['other']!r}): raised {e}")]
        ctx.obs = (pos, got)
        if got != want:
            return [(R.key("fixed", spec, "bounds-stale-after-reassigning-the-value"),
                     f"{descr}: re-assigned from {case['other']!r} after a bounds query: bounds {got}, a fresh object gives {want}")]
        if not (type(cfg.get(name)) is type(v) and cfg.get(name) == v):
            return [(R.key("fixed", spec, "random_config-stale-after-reassigning-the-value"), f"{descr}: {cfg}")]
        return []
    if isinstance(hp, Exception):
        if what != "bounds":
            return []
        return [(R.key("fixed", spec, "construct-" + _exc(hp)), f"{descr}: raised {hp}")]
    try:
        bounds = [(float(a), float(b)) for a, b in hp.get_ndarray_bounds()]
    except Exception as e:  # noqa: BLE001
        if what != "bounds":
            return []
        return [(R.key("fixed", spec, "bounds-" + _exc(e)), f"{descr}: get_ndarray_bounds raised "
                 f"{type(e).__name__}: {str(e)[:100]}")]
    n = sum(ctx.sizes())
    k = R.enc_size(spec)
    ctx.obs = (pos, bounds)
    if what == "bounds":
        msg = _bounds_ok(bounds, n)
        if msg:
            return [(R.key("fixed", spec, "bad-bounds"), f"{descr}: {msg}")]
        if list(hp.internal_keys)[-1] != name:
            return [(R.key("fixed", spec, "not-last"), f"{descr}: internal keys {hp.internal_keys}")]
        if any(a != b for a, b in bounds[n - k:]):
            return [(R.key("fixed", spec, "bounds-not-collapsed"), f"{descr}: bounds {bounds}")]
        return []
    if _bounds_ok(bounds, n):
        return []
    if what == "decode":
        vec = _box_vec(bounds, case["t"])
        try:
            cfg = hp.from_ndarray(np.array(vec, dtype=float))
        except Exception as e:  # noqa: BLE001
            return [(R.key("fixed", spec, "decode-" + _exc(e)), f"{descr}: from_ndarray({vec}) raised {e}")]
        ctx.obs = (pos, cfg)
        out = _check_decoded(ctx, cfg, "decode", f"{descr}: from_ndarray({vec})")
        if not out and not R.same_value(spec, v, cfg[name]):
            out.append((R.key("fixed-decode", spec, "not-the-fixed-value"),
                        f"{descr}: vector {vec} inside bounds decodes {name} = {cfg[name]!r}"))
        return out
    if what == "sample":
        try:
            cfg = hp.random_config(R.StubRS((case["pick"],)))
        except Exception:  # noqa: BLE001
            return []  # sampling failures belong to clause 'sample'
        ctx.obs = (pos, cfg)
        if not (type(cfg.get(name)) is type(v) and cfg.get(name) == v):
            return [(R.key("fixed", spec, "random_config-not-the-fixed-value"), f"{descr}: {cfg}")]
        return []
    raise ValueError(case)


# ------------------------------------------------------------------ clause: json

def describe(d):
    """Structural description of a Domain read from its attributes (independent of __eq__)."""
    out = {"cls": type(d).__name__}
    for a in ("lower", "upper", "categories", "log_scale", "size", "cast_int"):
        if hasattr(d, a):
            x = getattr(d, a)
            out[a] = [type(x).__name__, repr(x)]
    s = d.get_sampler()
    while s is not None:
        out.setdefault("sampler", []).append([type(s).__name__, repr(getattr(s, "q", None))])
        s = getattr(s, "sampler", None)
    return out


def cases_json(ctx, reduced):
    yield {}


def eval_json(ctx, case):
    from syne_tune import config_space as cs
    space = dict(ctx.space(), const_i=3, const_f=0.5, const_s="s")
    s0 = ctx.specs[0]
    try:
        text = json.dumps(cs.config_space_to_json_dict(space))
    except Exception as e:  # noqa: BLE001
        bad = s0
        for s, d in zip(ctx.specs, ctx.domains):
            try:
                json.dumps(cs.config_space_to_json_dict({"x": d}))
            except Exception:  # noqa: BLE001
                bad = s
                break
        return [(R.key("json", bad, "write-" + _exc(e)), f"{ctx.specs}: json.dumps(config_space_to_json_dict) raised "
                 f"{type(e).__name__}: {str(e)[:100]}")]
    try:
        space2 = cs.config_space_from_json_dict(json.loads(text))
    except Exception as e:  # noqa: BLE001
        return [(R.key("json", s0, "read-" + _exc(e)), f"{ctx.specs}: config_space_from_json_dict raised "
                 f"{type(e).__name__}: {str(e)[:100]}")]
    ctx.obs = text
    out = []
    if list(space2.keys()) != list(space.keys()):
        return [(R.key("json", s0, "keys-differ"), f"{ctx.specs}: {list(space2)}")]
    for n in ("const_i", "const_f", "const_s"):
        if type(space2[n]) is not type(space[n]) or space2[n] != space[n]:
            out.append((R.key("json", s0, "constant-changed"), f"{n}: {space2[n]!r}"))
    for n, s in zip(ctx.names, ctx.specs):
        try:
            eq = bool(space2[n] == space[n])
        except Exception as e:  # noqa: BLE001
            out.append((R.key("json", s, "eq-" + _exc(e)), f"{s}: == raised {e}"))
            continue
        if not eq:
            out.append((R.key("json", s, "not-equal"), f"{s}: read back {space2[n]!r} != {space[n]!r}"))
        elif describe(space2[n]) != describe(space[n]):
            out.append((R.key("json", s, "structure-differs"), f"{s}: {describe(space2[n])} vs {describe(space[n])}"))
    hp = ctx.hp()
    if out or isinstance(hp, Exception):
        return out
    try:
        hp2 = make_ranges(space2)
    except Exception as e:  # noqa: BLE001
        return [(R.key("json", s0, "ranges-" + _exc(e)), f"{ctx.specs}: ranges of the read-back space raised {e}")]
    single = len(ctx.specs) == 1
    per = [ctx.member_values(i, reduced=not single) for i in range(len(ctx.specs))]
    for combo in itertools.product(*per):
        cfg = dict(zip(ctx.names, combo))
        try:
            e1 = hp.to_ndarray(dict(cfg))
        except Exception:  # noqa: BLE001
            continue  # reported by clause roundtrip
        try:
            e2 = hp2.to_ndarray(dict(cfg))
        except Exception as e:  # noqa: BLE001
            return [(R.key("json", s0, "encode-" + _exc(e)), f"{ctx.specs}: read-back space cannot encode {cfg}")]
        if e1.shape != e2.shape or not np.array_equal(e1, e2):
            return [(R.key("json", s0, "encodes-differently"), f"{ctx.specs}: {cfg} -> {e1.tolist()} vs {e2.tolist()}")]
    for vec in _vec_lattice(ctx, hp, True):
        a = np.array(vec, dtype=float)
        try:
            c1 = hp.from_ndarray(a)
        except Exception:  # noqa: BLE001
            continue
        try:
            c2 = hp2.from_ndarray(a)
        except Exception as e:  # noqa: BLE001
            return [(R.key("json", s0, "decode-" + _exc(e)), f"{ctx.specs}: read-back space cannot decode {vec}")]
        if list(c1.items()) != list(c2.items()) or [type(x) for x in c1.values()] != [type(x) for x in c2.values()]:
            return [(R.key("json", s0, "decodes-differently"), f"{ctx.specs}: {vec} -> {c1} vs {c2}")]
    return out


CLAUSES = {
    "construct": (cases_construct, eval_construct),
    "sample": (cases_sample, eval_sample),
    "cast": (cases_cast, eval_cast),
    "decode": (cases_decode, eval_decode),
    "roundtrip": (cases_roundtrip, eval_roundtrip),
    "active": (cases_active, eval_active),
    "fixed": (cases_fixed, eval_fixed),
    "json": (cases_json, eval_json),
}


# ------------------------------------------------------------------ driver

def check_space(specs, reduced, cov, viols, seen):
    """All clauses x all cases for one space (list of 1..3 specs)."""
    specs = [R.as_json(s) for s in specs]
    try:
        ctx = Ctx(specs)
    except Exception as e:  # noqa: BLE001
        bad = specs[0]
        for s in specs:
            try:
                build(s)
            except Exception:  # noqa: BLE001
                bad = s
                break
        cov.add("evaluations")
        if isinstance(e, ValueError) and bad[0] in ("qrandint", "qlograndint") and not R.q_divides(bad):
            # a constructor that documents (by ValueError, like Float.quantized) that q must divide the
            # bounds makes these parameters illegal inputs: not enumerated further
            cov.outcome("construct:rejected-q-not-dividing-bounds")
            return
        cov.outcome("construct:violation")
        k = R.key("construct", bad, _exc(e))
        viols.setdefault(k, Violation(
            PROP, k, f"constructor raised for legal parameters {bad}: {type(e).__name__}: {str(e)[:120]}",
            {"specs": specs, "clause": "construct", "case": {}}))
        return
    nontrivial = not all(R.is_degenerate(s) for s in specs)
    nspec = R.norm(specs)
    for clause, (gen, ev) in CLAUSES.items():
        for case in gen(ctx, reduced):
            ctx.obs = None
            res = ev(ctx, case)
            cov.add("evaluations")
            if nontrivial:
                # distinct observed behaviours: (space, clause, what the implementation returned)
                h = hash((nspec, clause, repr(ctx.obs)))
                if h not in seen:
                    seen.add(h)
                    cov.add("distinct_nontrivial")
            if res:
                cov.outcome(clause + ":violation")
                for k, what in res:
                    if k not in viols:
                        viols[k] = Violation(PROP, k, what, {"specs": specs, "clause": clause, "case": case})
            else:
                cov.outcome(clause + ":ok")
                done = cov.__dict__.setdefault("_sampled", set())
                if nontrivial and clause not in done and clause in ("sample", "cast", "decode", "roundtrip", "active",
                                                                    "json") \
                        and (clause != "decode" or 0.0 < case["vec"][0] < 1.0) \
                        and (clause != "active" or case["what"] == "decode"):
                    done.add(clause)
                    cov.sample({"specs": specs, "clause": clause, "case": case,
                                "implementation_returned": _short(ctx.obs, 200), "oracle": "ok"})


def task(t):
    reduced, spaces = t
    cov, viols, seen = Coverage(), {}, set()
    for specs in spaces:
        check_space(specs, reduced, cov, viols, seen)
        cov.add("spaces")
    return cov, list(viols.values())


def _chunks(items, n):
    n = max(1, min(n, len(items)))
    return [items[i::n] for i in range(n)]


def spaces_for(tier, seed):
    singles = [[s] for s in R.all_specs(tier)]
    reps = list(R.REPS)
    pairs = [[a, b] for a in reps for b in reps]
    if tier == "quick":
        k = (seed * 3) % len(reps)
        sub = (reps + reps)[k:k + 7]
        triples = [[a, b, c] for a in sub for b in sub for c in sub]
    else:
        triples = [[a, b, c] for a in reps for b in reps for c in reps]
    return singles, pairs, triples


def run(tier, seed):
    res = Result()
    singles, pairs, triples = spaces_for(tier, seed)
    reduced = tier == "quick"
    tasks = [(reduced, ch) for ch in _chunks(singles, 96)]
    tasks += [(True, ch) for ch in _chunks(pairs, 32)]
    tasks += [(True, ch) for ch in _chunks(triples, 96)]
    for cov, viols in pmap(task, tasks):
        res.cov.merge(cov)
        res.violations.extend(viols)
    # minimal structural keys (tags that are not needed for the failure are dropped), one violation per key
    res.violations.sort(key=lambda v: (v.key, len(json.dumps(v.replay, default=repr)),
                                       json.dumps(v.replay, sort_keys=True, default=repr)))
    mapping = R.collapse_keys(sorted(set(v.key for v in res.violations)))
    final = {}
    for v in res.violations:
        fk = mapping[v.key]
        # representative: prefer the variant whose raw tags equal the reported ones
        exact = R.final_key(v.key) == fk
        if fk not in final or (exact and not final[fk][0]):
            final[fk] = (exact, Violation(PROP, fk, v.what, v.replay))
    res.violations = [final[k][1] for k in sorted(final)]
    import syne_tune
    res.cov.extra["syne_tune_path"] = str(syne_tune.__file__)
    res.cov.extra["single_domain_spaces"] = len(singles)
    res.cov.extra["two_domain_spaces"] = len(pairs)
    res.cov.extra["three_domain_spaces"] = len(triples)
    res.rule = (
        "cartesian product: every domain constructor x parameter lattice (bounds pairs lower<=upper incl. equal, "
        "sizes, category lists, q, cast_int; see bounds) x clause {construct, sample, cast, decode, roundtrip, active, "
        "fixed, json} x the clause's finite input lattice (stub-RNG answer alphabet^size for sizes 1 and 3; all members "
        "of finite domains / 13-point lattice of continuous ones; unit-cube lattice {0,EPS,j/8 (thorough j/64),1-EPS,1, rounding-cell "
        "boundaries +-1e-12}, {0,.5,1}^k for one-hot; all active sub-ranges over a 5-7 point sub-lattice / all subsets "
        "/ all contiguous subsequences x a 7-point lattice of the bounds box; up to 5 members (ends, near-ends, middle) as fixed last value); plus "
        "all ordered pairs and triples of representative domains with reduced per-coordinate lattices. "
        "distinct_nontrivial = number of distinct (space, clause, value returned by the implementation) triples "
        "over spaces that are not made of single-member domains only (measured by hashing; many lattice inputs "
        "map to the same returned value, so this is well below evaluations).")
    res.bounds = {"tier": tier, "lattice": {k: [repr(x) for x in v] for k, v in R.lattice(tier).items()},
                  "category_lists": [repr(c) for grp in R.category_lists(tier) for c in grp],
                  "representatives_for_products": len(R.REPS),
                  "triples_over": 7 if tier == "quick" else len(R.REPS),
                  "EPS": R.EPS, "DELTA": R.DELTA,
                  "sample_size3": "cyclic triples of the alphabet" if reduced else "full alphabet^3"}
    res.assumptions = list(env.ASSUMPTIONS) + [
        "legal parameters: lower<=upper; log domains lower>0; reverse-log 0<=lower<=upper<1; quantised float domains "
        "only with bounds divisible by q (Float.quantized rejects others); quantised integer domains with any q>=1 "
        "(docstring states no divisibility requirement; non-divisible cases carry the tag q-not-dividing-bounds); "
        "finrange size 1 built through FiniteRange (finrange() documents size>=2); nn ordinals strictly increasing "
        "numeric, nn-log positive",
        "membership oracle: float domains accept any instance of float (numpy.float64 is one), integer domains require "
        "int, categorical require the listed object type; quantisation is checked for samples only",
        "relative 1e-7 is measured w.r.t. the value for log-scaled domains and w.r.t. max(|value|,|lower|,|upper|) "
        "otherwise",
        "random_state replaced by a stub returning chosen alphabet points (numpy documents that uniform may return high)",
    ]
    return res


def replay(data):
    try:
        ctx = Ctx(data["specs"])
    except Exception:  # noqa: BLE001  (constructor failure is itself the recorded case)
        cov, viols = Coverage(), {}
        check_space(data["specs"], True, cov, viols, set())
        return [Violation(PROP, R.final_key(v.key), v.what, v.replay) for v in viols.values()]
    _, ev = CLAUSES[data["clause"]]
    return [Violation(PROP, R.final_key(k), what, data) for k, what in ev(ctx, data["case"])]
