"""C11 — seeded runs are reproducible."""
import hashlib
import json
import os
import subprocess
import sys

from .. import env
from ..core import Result, pmap, Violation, Coverage, ROOT
from ..schedx import World, explore, digest_str
from .. import scheds, tunerx
from . import c03, c04, c05, c15, c10

LEVEL = "model_checking"
PROP = "C11"


class SeededTwin(c15.Twin):
    """twin A: undisturbed. twin B: before every call both global generators are re-seeded with a call-index dependent
    value and consumed, and an independent scheduler object of the same kind (other seed) makes a call."""

    def __init__(self, a, b, noise=None):
        self.a, self.b = a, b
        self.s = a.s
        self.dead = None
        self.trace = a.trace
        self.status = a.status
        self.pruned = False
        self.noise = noise
        self.n = 0

    def _ties(self):
        return 0

    def _step(self, which, ev):
        if which == "b":
            import random
            import numpy as np
            self.n += 1
            np.random.seed(1000 + 7 * self.n)
            random.seed(5000 + 11 * self.n)
            np.random.rand(3)
            random.random()
            if self.noise is not None and not self.noise.dead:
                evs = self.noise.enabled()
                if evs:
                    self.noise.step(evs[self.n % len(evs)])
        return getattr(self, which).step(ev)

    def digest(self):
        nd = self.noise.digest() if self.noise is not None else ""
        return digest_str(self.a.digest() + self.b.digest() + nd)


def build_world(t, seed_shift=0, other=False):
    src, cfg = t["src"], dict(t["cfg"])
    cfg["seed"] = cfg["seed"] + seed_shift
    if other and t.get("noise_kw"):
        cfg["kw"] = dict(cfg.get("kw", {}), **t["noise_kw"])   # the interleaved instance works on another space (same names)
    if src in ("c03", "c04", "c05"):
        mod = {"c03": c03, "c04": c04, "c05": c05}[src]
        w = mod.build_world(cfg)
        w.oracles = []
        return w
    return c15.build_generic(cfg)


def build_twin(t):
    # all three schedulers are built from the same argument objects (search_options dict, restrict_configurations list)
    scheds.share(True)
    try:
        # order of creation: twin A, the unrelated instance, twin B (state leaking between instances through class-level or
        # default-argument objects then differs between the twins)
        a = build_world(t)
        noise = build_world(t, seed_shift=1, other=True) if t.get("noise", True) else None
        return SeededTwin(a, build_world(t), noise)
    finally:
        scheds.share(False)


def ctx_of(t):
    if t["src"] == "generic":
        return f"generic/{t['cfg']['kind']}/W{t['cfg']['W']}"
    return t["src"] + "/" + {"c03": c03.ctx_of, "c04": c04.ctx_of, "c05": c05.ctx_of}[t["src"]](t["cfg"])


def task_a(t):
    try:
        cov, viols = explore(lambda: build_twin(t), PROP, {"src": t["src"], "cfg": t["cfg"]}, max_states=t.get("max_states"),
                             ctx=ctx_of(t), exc_policy="ignore")
    except RuntimeError as e:
        if "replay diverged" not in str(e):
            raise
        # re-building the same scheduler and feeding it the same events led somewhere else: that *is* irreproducibility
        cov = Coverage()
        cov.add("states", 1)
        cov.add("transitions", 1)
        viols = [Violation(PROP, ctx_of(t) + "|replay-of-same-history-diverged", str(e)[:400], {"cfg": {"src": t["src"], "cfg": t["cfg"]}, "history": []})]
    for v in viols:
        v.what = v.what.replace("mode min on f gives", "undisturbed twin gives").replace("mode max on -f gives", "twin with perturbed global RNGs / interleaved instance gives")
    return cov, viols


def a_configs(tier, seed):
    out = []
    for src, mod in (("c03", c03), ("c04", c04), ("c05", c05)):
        base = mod.configs(tier, seed)
        step = 8 if tier == "quick" else 3
        for i, c in enumerate(base):
            if i % step != (seed % step):
                continue
            if src == "c04" and c["type"] == "pasha" and c["brackets"] > 1:
                continue
            c2 = dict(c)
            if src in ("c03", "c04") and c2["brackets"] > 1:
                c2["free_brackets"] = True   # brackets are drawn by the scheduler's own seeded generator here
            out.append(dict(src=src, cfg=c2, max_states=1500 if tier == "quick" else 3500))
    # PBT with a population large enough for a real choice among the upper quantile
    out.append(dict(src="generic", max_states=2500 if tier == "quick" else 8000,
                    cfg=dict(kind="pbt", seed=seed, R=3, W=4, T=6, F=0, mode="min", kw=dict(population_size=4))))
    # grid search on a numerical space while an unrelated grid search on a smaller space (same names) runs in the same process
    out.append(dict(src="generic", max_states=1500 if tier == "quick" else 3500, noise_kw=dict(grid_space="num-small"),
                    cfg=dict(kind="fifo-grid", seed=seed, R=3, W=2, T=5, F=1, mode="min", kw=dict(grid_space="num"))))
    # one restrict_configurations list object handed to all instances
    for kind in ("fifo-random", "hb-promotion"):
        out.append(dict(src="generic", max_states=1500 if tier == "quick" else 3500,
                        cfg=dict(kind=kind, seed=seed, R=3, W=2, T=5, F=1, mode="min", kw=dict(restrict=8))))
        # ... and with initial points that are members of the list (fresh-process twins: always part of the children's set)
        out.append(dict(src="generic", max_states=1500 if tier == "quick" else 3500, always_child=True,
                        cfg=dict(kind=kind, seed=seed, R=3, W=2, T=6, F=1, mode="min", kw=dict(restrict=12, restrict_p2e=[5, 2]))))
    # spaces made of quantized domains (the seeded generator has to reach the wrapped sampler)
    for kind in ("fifo-random", "hb-stopping", "pbt"):
        out.append(dict(src="generic", max_states=1200 if tier == "quick" else 3500,
                        cfg=dict(kind=kind, seed=seed, R=3, W=2, T=5, F=0, mode="min", kw=dict(quant_space=True))))
    for kind in ["pbt", "dehb", "median", "rea", "fifo-random", "fifo-grid", "hb-rush-prom", "hb-cost", "fifo-bo"]:
        for W in (2, 3):
            if tier == "quick" and W == 3:
                continue
            for mode in ("min", "max"):
                if tier == "quick" and mode == "max" and kind not in ("pbt", "dehb"):
                    continue
                out.append(dict(src="generic", max_states=1500 if tier == "quick" else 3500,
                                cfg=dict(kind=kind, seed=seed, R=3, W=W, T=4 if kind != "rea" else 5, F=1, mode=mode)))
    return out


# ------------------------------------------------------------------------- fresh-process twins

def child_traces(tier, seed):
    """run in a fresh process: digest of every observation trace of a fixed set of explorations (no twin),
    and the result table of simulated experiments with equal seeds"""
    out = {}
    # state leaking between instances through process-global objects (class attributes, mutable default arguments) only shows
    # for the first instances of a process: twin A is created and driven, then an unrelated instance (other seed, for grid
    # search another space with the same names), then twin B with the arguments of A
    for t in a_configs(tier, seed):
        if t["src"] != "generic" or t["cfg"].get("W") != 2:
            continue
        def drive(w, n=12):
            for _ in range(n):
                en = w.enabled()
                if not en or w.dead:
                    break
                w.step(en[0])
            return repr(w.trace)
        scheds.share(True)
        try:
            ta = drive(build_world(t))
            drive(build_world(t, seed_shift=1, other=True), 6)
            tb = drive(build_world(t))
        finally:
            scheds.share(False)
        out["inproc:" + ctx_of(t) + ("/" + json.dumps(t["cfg"].get("kw"), sort_keys=True) if t["cfg"].get("kw") else "")] = \
            "same" if ta == tb else "differs: first instance " + ta[:300] + " ... instance created after an unrelated one " + tb[:300]
    allc = a_configs(tier, seed)
    step = 3 if tier == "quick" else 2
    for t in [c for i, c in enumerate(allc) if i % step == 0 or c.get("always_child")]:
        t = dict(t, max_states=400 if tier == "quick" else 2000)
        traces = []

        def on_state(w, hist, traces=traces):
            traces.append(repr(w.trace))
            return None
        explore(lambda: build_world(t), PROP, {}, max_states=t["max_states"], on_state=on_state, exc_policy="ignore")
        out[json.dumps({"src": t["src"], "ctx": ctx_of(t), "mode": t["cfg"].get("mode"), "kw": t["cfg"].get("kw"),
                        "n": len(out)}, sort_keys=True)] = \
            hashlib.sha1("\n".join(traces).encode()).hexdigest() + f":{len(traces)}"
    # simulated experiments (real time stubbed to 0), incl. a GP searcher with a fitted surrogate
    for kind, extra in (("fifo-random", {}), ("hb-promotion", {}), ("hb-stopping", {}), ("shb", {}), ("fifo-bo-fit", {})):
        cfg = dict(kind=kind if kind != "fifo-bo-fit" else "fifo-random", ckpt=True, mra=True, timecol="monotone", simconf="default",
                   sleep=0.1, W=2, n_a=3, n_seeds=2, R=4, seed=seed, bseed=None, stop={"max_num_trials_started": 6}, k=0,
                   loop_cap=600, outside=False)
        build = c10.build_factory(cfg)
        if kind == "fifo-bo-fit":
            build = bo_factory(cfg)
        ex = tunerx.run_tuner(build, tunerx.Chooser([]), 600)
        rows = [(r["trial_id"], r.get("epoch"), r.get("loss"), r.get("st_tuner_time"),
                 tuple(sorted((k, str(v)) for k, v in r.items() if k.startswith("config_")))) for r in ex.extra["simcb"].results]
        tunerx.clean_scratch()
        out["sim:" + kind] = hashlib.sha1(repr(rows).encode()).hexdigest() + f":{len(rows)}:{ex.exc[0] if ex.exc else 'ok'}"
    return out


def bo_factory(cfg):
    base = c10.build_factory(cfg)

    def build(chooser, log):
        # same simulated experiment, but FIFO + GP Bayesian optimisation with a really fitted surrogate
        import mc.scheds as S
        orig = S.make

        def make(kind, **kw):
            from syne_tune.optimizer.schedulers import FIFOScheduler
            s = FIFOScheduler(kw["space"], searcher="bayesopt", metric="loss", mode="min", random_seed=kw["seed"],
                              search_options={"debug_log": False, "num_init_random": 2, "opt_nstarts": 1, "opt_maxiter": 5,
                                              "num_init_candidates": 10, "allow_duplicates": True})
            return s, dict(metric="loss", resource_attr="epoch", mra=None, metrics=None)
        S.make = make
        try:
            return base(chooser, log)
        finally:
            S.make = orig
    return build


def run_children(tier, seed):
    outs = []
    for hs in ("0", "4242"):
        e = dict(os.environ, PYTHONHASHSEED=hs, VERIF_SEED=str(seed))
        p = subprocess.run([sys.executable, "-m", "mc.props.c11", "--child", tier], cwd=str(ROOT), env=e, capture_output=True, text=True)
        if p.returncode != 0:
            raise RuntimeError("child failed: " + p.stderr[-2000:])
        outs.append(json.loads(p.stdout.strip().splitlines()[-1]))
    return outs


def run(tier, seed):
    res = Result()
    cfgs = a_configs(tier, seed)
    import concurrent.futures as cf
    with cf.ThreadPoolExecutor(1) as tp:
        fut = tp.submit(run_children, tier, seed)   # fresh processes run while the twin explorations use the pool
        for cov, viols in pmap(task_a, cfgs, procs=max(1, env.ncpu() - 2)):
            res.cov.merge(cov)
            res.violations.extend(viols)
        a, b = fut.result()
    res.cov.add("fresh_process_traces", 2 * len(a))
    for k in sorted(set(a) | set(b)):
        res.cov.add("traces_validated_against_impl", 2)
        if k.startswith("inproc:"):
            for which, d in (("0", a), ("4242", b)):
                if d.get(k) != "same":
                    res.violations.append(Violation(PROP, "inproc|" + k[7:].split("/{")[0] + "|twin-created-after-an-unrelated-instance-differs",
                                                    f"fresh process (PYTHONHASHSEED {which}): {k[7:]}: {d.get(k)}",
                                                    {"engine": "fresh-process", "key": k}))
                    break
            continue
        if a.get(k) != b.get(k):
            res.violations.append(Violation(PROP, "hashseed|" + ("sim-table-differs:" + k[4:] if k.startswith("sim:") else "traces-differ:" + json.loads(k)["ctx"]),
                                            f"two fresh processes (PYTHONHASHSEED 0 / 4242, equal seeds) disagree on {k}: {a.get(k)} vs {b.get(k)}",
                                            {"engine": "fresh-process", "key": k}))
    res.cov.sample({"fresh_process_digests": dict(list(a.items())[:3])})
    res.rule = ("(1) Seeded twins in one process: every event history (BFS, dedup on the joint state) of the C03/C04/C05 worlds and of "
                "PBT / DEHB / median / REA / FIFO random, grid, GP (random phase) / RUSH / cost schedulers on twin A and twin B built with "
                "equal arguments, where before every call to B both global generators are re-seeded (call-index dependent) and consumed "
                "and an independent third scheduler object (other seed) makes a call; outputs must be identical. (2) The explorations' "
                "full observation traces and the result tables of simulated experiments (real time stubbed to 0; incl. a fitted GP "
                "surrogate) are recomputed in two fresh processes with PYTHONHASHSEED 0 / 4242 and compared.")
    res.bounds = {"configs": len(cfgs), "tier": tier}
    res.assumptions = list(env.ASSUMPTIONS) + ["MOASHA takes no random_seed and is outside the property's quantifier",
                                               "GP searchers with a fitted surrogate: fresh-process twins only (as the property states)"]
    return res


def replay(data):
    if data.get("engine") == "fresh-process":
        a, b = run_children("quick", env.seed())
        k = data["key"]
        if k.startswith("inproc:"):
            return [Violation(PROP, "inproc", str(d.get(k))) for d in (a, b) if d.get(k) != "same"][:1]
        return [Violation(PROP, "hashseed", f"{a.get(k)} vs {b.get(k)}")] if a.get(k) != b.get(k) else []
    t = dict(src=data["cfg"]["src"], cfg=data["cfg"]["cfg"])
    w = build_twin(t)
    out = []
    for ev in [tuple(e) for e in data["history"]]:
        obs, vs = w.step(ev)
        for k, what in vs:
            out.append(Violation(PROP, k, what))
    return out


if __name__ == "__main__":
    if len(sys.argv) >= 3 and sys.argv[1] == "--child":
        import contextlib
        import io
        buf = io.StringIO()
        with contextlib.redirect_stdout(buf):
            out = child_traces(sys.argv[2], env.seed())
        print(json.dumps(out, sort_keys=True))
