"""C18 -- metrics reported by a training script arrive unchanged at the tuner.

Bounded-exhaustive enumeration of report streams.  One *case* is a sequence of items written to one captured stdout:
reports (the real ``Reporter()(**payload)``) and noise (plain writes, as a training script's own prints), under a
harness-owned clock.  The captured bytes are written to ``<shm>/0/std.out`` and read back through the real
``LocalBackend.stdout`` (``readlines``), then handed to the real ``retrieve``; a second observation hands ``retrieve`` the
same lines without their terminators (how ``sagemaker_utils.get_log`` delivers lines).

Oracle (only what the property states):
  * retrieve(lines) has one dict per accepted report, in order; its non-``st_`` part is type-strictly, NaN-aware equal
    to the JSON-normal form of the payload (tuples->lists, keys->strings, numpy scalars->plain numbers);
  * ``st_worker_iter`` is an int and strictly increasing; ``st_worker_timestamp`` is a number and non-decreasing
    whenever the wall clock readings were non-decreasing (a stepping-back wall clock is an environment fault the
    property does not quantify over -- then only order and counter are demanded); ``st_worker_time`` non-decreasing;
  * ``r_*``/``u_*`` reports raise and leave no tagged text; the reports after them still arrive;
  * ``e_*`` reports may go either way, cleanly.
"""
import io
import itertools
import os
import shutil
import sys
import tempfile
from pathlib import Path

from .. import env
from ..core import Result, Coverage, Violation, pmap
from .. import c18_alphabet as A

LEVEL = "exploration"
PROP = "C18"

TAGB = A.TAG.encode()
WALL = {"lo": 1695700000.25, "mid": 1695700001.5000001, "hi": 1695700050.125}  # disjoint from the default readings
WALL_ORDER = ["lo", "mid", "hi"]
WALL0, WALL_STEP = 1695712345.678901, 1.000001
PERF0 = 12345.000123
REPS = {
    "default": {},
    "no_cost": {"add_cost": False},
    "no_time": {"add_time": False},
    "cost": {},  # SM_HP_ST_INSTANCE_TYPE / _COUNT set while the Reporter is constructed -> st_worker_cost is reported
}
COST_ENV = {"SM_HP_ST_INSTANCE_TYPE": "ml.m5.large", "SM_HP_ST_INSTANCE_COUNT": "2"}
MAX_MINIMISE_PER_CLAUSE = 3


def wall_of(spec, j):
    if spec:
        return WALL[spec[j]]
    return WALL0 + WALL_STEP * j


def perf_of(spec, j):
    if spec == "const":
        return PERF0  # perf_counter resolution tie: zero elapsed time
    return PERF0 + 0.5 * (j + 1) + 1e-7


def pattern(case):
    parts = []
    if case.get("rep", "default") != "default":
        parts.append("rep=" + case["rep"])
    if case.get("wall"):
        parts.append("wall=" + ",".join(case["wall"]))
    if case.get("perf", "inc") != "inc":
        parts.append("perf=" + case["perf"])
    parts.append("+".join(n for _, n in case["items"]) or "<empty-stream>")
    return ";".join(parts)


class Bench:
    """Per-task seam holder: scratch std.out under /dev/shm, owned clock, real LocalBackend.stdout on a stub self."""

    def __enter__(self):
        import syne_tune.report as R
        from syne_tune.backend.local_backend import LocalBackend
        from syne_tune.constants import ST_SAGEMAKER_METRIC_TAG
        assert ST_SAGEMAKER_METRIC_TAG == A.TAG, "metric tag changed: alphabets must be rebuilt"
        self.R = R
        base = "/dev/shm" if os.path.isdir("/dev/shm") and os.access("/dev/shm", os.W_OK) else None
        self.root = tempfile.mkdtemp(prefix="verif_c18_", dir=base)
        os.makedirs(os.path.join(self.root, "0"))
        self.path = os.path.join(self.root, "0", "std.out")
        # a real LocalBackend object (constructor run), pointed at the scratch directory: only its stdout() is used
        entry = os.path.join(self.root, "job.py")
        with open(entry, "w") as f:
            f.write("# never started\n")
        self._entry = entry
        self._LocalBackend = LocalBackend
        self.stub = None
        self.now_wall, self.now_perf, self.wall_reads = 0.0, PERF0, 0
        self.saved = {n: getattr(R, n) for n in ("time", "perf_counter") if callable(getattr(R, n, None))}
        if "time" in self.saved:
            R.time = self._time
        if "perf_counter" in self.saved:
            R.perf_counter = self._perf
        self.saved_env = {k: os.environ.pop(k) for k in COST_ENV if k in os.environ}
        # is the wall clock really owned?  (a refactoring to ``time.time()`` would bypass the seam)
        self.wall_reads, self.clock_owned = 0, True
        self.run_case({"items": [["x", "p_flat"]]})
        self.clock_owned = self.wall_reads > 0
        return self

    def __exit__(self, *exc):
        for n, f in self.saved.items():
            setattr(self.R, n, f)
        os.environ.update(self.saved_env)
        shutil.rmtree(self.root, ignore_errors=True)
        return False

    def _time(self):
        self.wall_reads += 1
        return self.now_wall

    def _perf(self):
        return self.now_perf

    def make_reporter(self, rep):
        if rep == "cost":
            os.environ.update(COST_ENV)
            try:
                return self.R.Reporter(**REPS[rep])
            finally:
                for k in COST_ENV:
                    os.environ.pop(k, None)
        return self.R.Reporter(**REPS[rep])

    # ------------------------------------------------------------------ one case

    def run_case(self, case, keep=False):
        """Returns dict(clauses=[(clause, detail)], data=bytes|None, got=..., outcome=str, attempts=[...])."""
        items = case["items"]
        rep = case.get("rep", "default")
        wallspec, perfspec = case.get("wall"), case.get("perf", "inc")
        clauses = {}

        def flag(clause, detail):
            clauses.setdefault(clause, detail)

        buf = io.BytesIO()
        out = io.TextIOWrapper(buf, encoding="utf-8", newline="\n")  # what sys.stdout is on a redirected POSIX stream
        attempts = []  # (name, kind, exception name or None, wall reading)
        expected = []  # (name, normal form or None, wall reading)
        old = sys.stdout
        sys.stdout = out
        try:
            self.now_perf, self.now_wall = PERF0, 0.0
            try:
                reporter = self.make_reporter(rep)
            except Exception as e:  # noqa: BLE001
                flag("reporter:construct-raises:" + type(e).__name__, str(e)[:200])
                reporter = None
            j = 0
            for kind, name in items:
                if kind == "n":
                    v = A.NOISE[name]
                    if isinstance(v, bytes):
                        out.flush()
                        buf.write(v)  # sys.stdout.buffer.write(...)
                    else:
                        out.write(v)
                    continue
                if reporter is None:
                    continue
                w = wall_of(wallspec, j)
                self.now_wall, self.now_perf = w, perf_of(perfspec, j)
                j += 1
                out.flush()
                p0 = buf.tell()
                exc = None
                try:
                    reporter(**A.item(name))
                except Exception as e:  # noqa: BLE001
                    exc = type(e).__name__
                    exc_text = str(e)[:160]
                out.flush()
                cls = A.kind_of(name)
                attempts.append((name, cls, exc, w))
                if exc is not None:
                    if TAGB in buf.getvalue()[p0:]:
                        flag("reject:partial-tagged-line", "%s raised %s but left tagged text in the stream" % (name, exc))
                    if cls == "p":
                        flag("report:raises:" + exc, "Reporter(%s)(**%s) raised %s: %s" % (
                            REPS[rep] or "", name, exc, exc_text))
                else:
                    if cls == "r":
                        what = ("reserved-key" if name.startswith("r_st") else
                                "oversize" if name.startswith("r_over") else "unserialisable")
                        flag("reject:%s-accepted" % what, "%s was reported without an exception" % name)
                        expected.append((name, None, w))
                    else:
                        expected.append((name, A.NORMAL[name], w))
            out.flush()
        finally:
            sys.stdout = old
        data = buf.getvalue()

        with open(self.path, "wb") as f:
            f.write(data)
        got = None
        try:
            # a fresh backend object per stream (std.out is rewritten from scratch for every case: an implementation that
            # remembers what it has read of an append-only file must not be confused by the bench)
            self.stub = self._LocalBackend(entry_point=self._entry, rotate_gpus=False)
            self.stub.local_path = Path(self.root)
            lines = self.stub.stdout(trial_id=0)  # the real LocalBackend.stdout: open(...,"r").readlines()
        except Exception as e:  # noqa: BLE001
            flag("stdout:raises:" + type(e).__name__, "LocalBackend.stdout: " + str(e)[:160])
            lines = None
        if lines is not None:
            eol_exc = None
            try:
                got = self.R.retrieve(log_lines=lines)
            except Exception as e:  # noqa: BLE001
                eol_exc = type(e).__name__
                flag("retrieve:raises:" + eol_exc, str(e)[:160])
            else:
                self.check(got, expected, "retrieve", flag)
            bare = [ln[:-1] if ln.endswith("\n") else ln for ln in lines]
            try:
                got2 = self.R.retrieve(log_lines=bare)
            except Exception as e:  # noqa: BLE001
                if type(e).__name__ != eol_exc:  # the same failure in both observations is reported once
                    flag("retrieve[no-eol]:raises:" + type(e).__name__, str(e)[:160])
            else:
                if got is None or (got2 != got and not A.same(got2, got)):
                    self.check(got2, expected, "retrieve[no-eol]", flag)
        # the backend polls while the job is still writing: the same backend object reads the (append-only) file when only a
        # prefix is there - cut inside and between lines - and again when all of it is; the second reading must give the
        # same reports as reading the complete file once
        if isinstance(got, list) and 0 < len(data) <= 600 and len(items) <= 2 and case.get("two_reads", True):
            cuts = set()
            pos = 0
            for ln in data.split(b"\n"):
                cuts.update({pos + len(ln) // 2, pos + len(ln), pos + len(ln) + 1})
                pos += len(ln) + 1
            for cut in sorted(c for c in cuts if 0 < c < len(data)):
                try:
                    with open(self.path, "wb") as f:
                        f.write(data[:cut])
                    b2 = self._LocalBackend(entry_point=self._entry, rotate_gpus=False)
                    b2.local_path = Path(self.root)
                    b2.stdout(trial_id=0)
                    with open(self.path, "ab") as f:
                        f.write(data[cut:])
                    again = self.R.retrieve(log_lines=b2.stdout(trial_id=0))
                except Exception as e:  # noqa: BLE001
                    flag("two-reads:raises:" + type(e).__name__, "poll after %d of %d bytes: %s" % (cut, len(data), str(e)[:120]))
                    break
                if again != got and not A.same(again, got):
                    flag("two-reads:differs-from-one-read", "a poll after %d of %d bytes, then a poll of the whole file: %d reports "
                                                            "retrieved, one reading of the whole file gives %d" % (cut, len(data), len(again), len(got)))
                    break
        res = {"clauses": list(clauses.items()), "attempts": attempts,
               "n_got": len(got) if isinstance(got, list) else -1, "digest": hash(data), "n_bytes": len(data)}
        if keep:
            res["data"], res["got"] = data, got
        return res

    def check(self, got, expected, pre, flag):
        if type(got) is not list:
            flag(pre + ":not-a-list", repr(got)[:100])
            return
        if len(got) != len(expected):
            flag(pre + ":count", "%d dictionaries retrieved, %d reports accepted (%s)" % (
                len(got), len(expected), ",".join(e[0] for e in expected)))
            return
        prev = None
        for i, (g, (name, norm, w)) in enumerate(zip(got, expected)):
            if type(g) is not dict:
                flag(pre + ":payload-mismatch", "report #%d (%s) arrived as %.80r" % (i, name, g))
                return
            user = {k: v for k, v in g.items() if not k.startswith("st_")}
            if norm is None:
                flag("reject:note", "%s arrived as %.100r" % (name, user))
            elif not A.same(user, norm):
                flag(pre + ":payload-mismatch", "report #%d (%s): expected vs arrived %s" % (
                    i, name, A.first_diff(norm, user)))
            it, ts, tm = g.get("st_worker_iter"), g.get("st_worker_timestamp"), g.get("st_worker_time")
            if type(it) is not int:
                flag("st:iter-missing", "report #%d: st_worker_iter=%r" % (i, it))
            if type(ts) not in (int, float) or ts != ts:
                flag("st:timestamp-missing", "report #%d: st_worker_timestamp=%r" % (i, ts))
            if tm is not None and (type(tm) not in (int, float) or tm != tm):
                flag("st:time-not-a-number", "report #%d: st_worker_time=%r" % (i, tm))
            if prev is not None:
                pit, pts, ptm, pw = prev
                if type(it) is int and type(pit) is int and not it > pit:
                    flag("st:iter-not-increasing", "st_worker_iter %r then %r" % (pit, it))
                clock_ok = (w >= pw) if self.clock_owned else True
                if clock_ok and type(ts) in (int, float) and type(pts) in (int, float) and ts < pts:
                    flag("st:timestamp-decreasing", "st_worker_timestamp %r then %r (wall clock %r then %r)" % (
                        pts, ts, pw, w))
                if type(tm) in (int, float) and type(ptm) in (int, float) and tm < ptm:
                    flag("st:time-decreasing", "st_worker_time %r then %r" % (ptm, tm))
            prev = (it, ts, tm, w)

    # ------------------------------------------------------------------ minimisation (deterministic, greedy)

    def has_clause(self, case, clause):
        return any(c == clause for c, _ in self.run_case(case)["clauses"])

    def minimise(self, case, clause):
        cur = {"rep": case.get("rep", "default"), "wall": list(case["wall"]) if case.get("wall") else None,
               "perf": case.get("perf", "inc"), "items": [list(i) for i in case["items"]]}
        changed = True
        while changed:
            changed = False
            for cand in _simpler(cur):
                if self.has_clause(cand, clause):
                    cur, changed = cand, True
                    break
        return cur


def _simpler(case):
    if case["rep"] != "default":
        yield dict(case, rep="default")
    if case["wall"]:
        yield dict(case, wall=None)
    if case["perf"] != "inc":
        yield dict(case, perf="inc")
    items = case["items"]
    for i, (k, _) in enumerate(items):
        c = dict(case, items=items[:i] + items[i + 1:])
        if k != "n" and case["wall"]:
            j = sum(1 for kk, _ in items[:i] if kk != "n")
            c["wall"] = case["wall"][:j] + case["wall"][j + 1:] or None
        yield c
    if case["wall"]:
        for i, w in enumerate(case["wall"]):
            for m in WALL_ORDER[:WALL_ORDER.index(w)]:
                yield dict(case, wall=case["wall"][:i] + [m] + case["wall"][i + 1:])
    # canonicalise: replace an item by an earlier one of its alphabet (kept only if the clause persists)
    payloads, noises = list(A.PAYLOADS), list(A.NOISE)
    for i, (k, n) in enumerate(items):
        alpha = noises if k == "n" else payloads
        upto = alpha.index(n) if n in alpha else len(alpha)
        for m in alpha[:upto]:
            yield dict(case, items=items[:i] + [[k, m]] + items[i + 1:])
            if sum(1 for it in items if it == [k, n]) > 1:  # all occurrences at once (failures that need a repeat)
                yield dict(case, items=[[k, m] if it == [k, n] else it for it in items])


def violations_of(res):
    """(clause, detail) pairs of one case result; the 'arrived as' note is folded into the rejection clause."""
    out = []
    note = dict(res["clauses"]).get("reject:note")
    for clause, detail in res["clauses"]:
        if clause == "reject:note":
            continue
        if clause.startswith("reject:") and clause.endswith("-accepted") and note:
            detail += "; " + note
        out.append((clause, detail))
    return out


# ---------------------------------------------------------------------------------------------- task = one sequence

def slot_options(noise, depth):
    opts = [()] + [(n,) for n in noise]
    if depth >= 2:
        opts += [(a, b) for a in noise for b in noise]
    return opts


def cases_of(t):
    """All cases of one task: every noise placement x every clock pattern for one (reporter, report sequence)."""
    seq = t["seq"]
    opts = slot_options(t["noise"], t.get("depth", 1))
    must = set(t.get("must_noise") or ())
    need2 = t.get("need_depth2", False)
    walls = t.get("walls") or [None]
    perfs = t.get("perfs") or ["inc"]
    for slots in itertools.product(opts, repeat=len(seq) + 1):
        if must and not any(n in must for s in slots for n in s):
            continue
        if need2 and not any(len(s) >= 2 for s in slots):
            continue
        items = []
        for i, s in enumerate(slots):
            items.extend(["n", n] for n in s)
            if i < len(seq):
                items.append(["x", seq[i]])
        for wall in walls:
            for perf in perfs:
                yield {"rep": t.get("rep", "default"), "items": items, "wall": wall, "perf": perf}


def nontrivial(case):
    has_report = has_other = False
    for k, n in case["items"]:
        if k == "n":
            has_other = True
        else:
            has_report = True
            if n not in A.PLAIN:
                has_other = True
    return has_report and has_other


def task(t):
    cov = Coverage()
    found = {}  # key -> Violation
    per_clause = {}
    seen = set()
    count_distinct = t.get("count_distinct", True)
    n = 0
    with Bench() as b:
        if not b.clock_owned:
            cov.cap("clock seam syne_tune.report.time not found: time stamps come from the real wall clock")
        for case in cases_of(t):
            res = b.run_case(case)
            n += 1
            if count_distinct and nontrivial(case):
                seen.add(res["digest"])
            for name, cls, exc, _ in res["attempts"]:
                if cls != "p" or exc:
                    cov.outcome("%s:%s" % (name, exc or "accepted"))
            cov.outcome("retrieved=%d" % res["n_got"])
            if n == t.get("sample_at", -1):
                r2 = b.run_case(case, keep=True)
                cov.sample({"family": t["fam"], "case": pattern(case),
                            "stream_head": r2["data"][:200].decode("utf-8", "replace"),
                            "stream_bytes": r2["n_bytes"], "retrieved": r2["n_got"]})
            if res["clauses"]:
                for clause, detail in violations_of(res):
                    k = per_clause.get(clause, 0)
                    if k >= MAX_MINIMISE_PER_CLAUSE:
                        continue
                    per_clause[clause] = k + 1
                    small = b.minimise(case, clause)
                    key = clause + "|" + pattern(small)
                    if key not in found:
                        # detail of the minimal case, not of the big one
                        d2 = dict(violations_of(b.run_case(small))).get(clause, detail)
                        found[key] = Violation(PROP, key, "%s: %s [minimal stream: %s]" % (clause, d2, pattern(small)),
                                               {"case": small, "clause": clause, "found_in": pattern(case)})
    cov.add("evaluations", n)
    cov.add("distinct_nontrivial", len(seen))
    cov.extra["cases_" + t["fam"]] = n
    return cov, list(found.values())


# ---------------------------------------------------------------------------------------------- families

def _t(fam, seq, noise, **kw):
    d = {"fam": fam, "seq": list(seq), "noise": list(noise)}
    d.update(kw)
    return d


def build_tasks(tier):
    P = tuple(A.PAYLOADS)
    prod = itertools.product
    T = []
    thorough = tier == "thorough"
    extra = tuple(n for n in A.NOISE_FULL if n not in A.NOISE_DESIGN)

    # F1: accepted payload sequences x every noise placement (one item per slot)
    for k in (0, 1, 2):
        for s in prod(P, repeat=k):
            T.append(_t("F1_seq<=2_full", s, A.NOISE_FULL))
    if thorough:
        for s in prod(A.PAYLOAD_MAIN, repeat=3):
            T.append(_t("F1_seq3_main14_x_design_noise", s, A.NOISE_DESIGN))
        for s in prod(A.PAYLOAD_SMALL, repeat=3):
            T.append(_t("F1_seq3_small_x_extra_noise", s, A.NOISE_FULL, must_noise=extra))
        for s in prod(A.PAYLOAD_TINY, repeat=4):
            T.append(_t("F1_seq4_tiny", s, A.NOISE_TINY))
    else:
        for s in prod(A.PAYLOAD_SMALL, repeat=3):
            T.append(_t("F1_seq3_small", s, A.NOISE_SMALL))
    # F1d2: two noise items in one slot (noise-noise adjacency, e.g. unterminated text then braces)
    for s in prod(P if thorough else A.PAYLOAD_SMALL, repeat=1):
        T.append(_t("F1d2_seq1", s, A.NOISE_FULL, depth=2, need_depth2=True))
    if thorough:
        for s in prod(A.PAYLOAD_TINY, repeat=2):
            T.append(_t("F1d2_seq2", s, A.NOISE_SMALL, depth=2, need_depth2=True))

    # F2: every wall-clock pattern over {lo,mid,hi}^k (incl. ties and steps back) x perf ties x reporter variants
    for k in (1, 2, 3):
        walls = [list(w) for w in prod(("lo", "mid", "hi"), repeat=k)]
        for s in prod(A.PAYLOAD_CLOCK, repeat=k):
            for rep in ("default", "no_cost"):
                T.append(_t("F2_clock", s, ("n_nonl",), rep=rep, walls=walls, perfs=["inc", "const"],
                            count_distinct=(rep == "default")))
            if k <= (3 if thorough else 2):
                T.append(_t("F2_clock_cost", s, (), rep="cost", walls=walls, perfs=["inc", "const"]))

    # F3: rejection alphabet mixed with accepted reports
    X = A.PAYLOAD_CLOCK + tuple(A.REJECTS) + tuple(A.EITHER)
    Xs = ("p_flat", "p_nested", "r_st_key", "r_oversize", "u_set", "u_ndarray", "e_none_top")

    def has_rej(s):
        return any(n not in A.PAYLOADS for n in s)

    for k in (1, 2):
        for s in prod(X, repeat=k):
            if has_rej(s):
                T.append(_t("F3_reject", s, A.NOISE_TINY))
    for s in prod(X if thorough else Xs, repeat=3):
        if has_rej(s):
            T.append(_t("F3_reject_seq3", s, A.NOISE_TINY))

    # F4: documented Reporter variants over the whole payload alphabet
    for rep in ("no_time", "no_cost"):
        for k in (1, 2):
            for s in prod(P, repeat=k):
                T.append(_t("F4_reporter_" + rep, s, A.NOISE_SMALL, rep=rep, count_distinct=(rep != "no_cost")))

    # F5: other output that is not valid UTF-8 (script writes raw bytes to sys.stdout.buffer)
    for k in (0, 1, 2):
        for s in prod(A.PAYLOAD_TINY, repeat=k):
            T.append(_t("F5_undecodable_noise", s, ("n_badbytes", "n_text", "n_nonl"), must_noise=("n_badbytes",)))

    for i, t in enumerate(T):
        t["sample_at"] = 7 if i % 97 == 0 else -1
    return T


def _rank(key):
    """Report order: channel corruption first, then counter/time stamps, reporting-side failures, rejections."""
    for i, pre in enumerate(("retrieve", "st:", "report", "reject:partial", "reject:", "stdout:")):
        if key.startswith(pre):
            return i
    return 9


def run(tier, seed):
    res = Result()
    # the payload alphabet must be pairwise distinct on the wire, otherwise "distinct" cases would be over-counted
    wire = {}
    for n, v in A.PAYLOADS.items():
        wire.setdefault(repr(A.NORMAL[n]), []).append(n)
    assert all(len(v) == 1 for v in wire.values()), wire
    T = build_tasks(tier)
    r = seed % len(T)
    order = T[r:] + T[:r]  # the seed only rotates the order in which tasks are handed to the pool
    by_key = {}
    for t, (cov, viols) in sorted(zip(order, pmap(task, order)), key=lambda p: T.index(p[0])):
        res.cov.merge(cov)
        for v in viols:
            by_key.setdefault(v.key, v)
    res.violations = [by_key[k] for k in sorted(by_key, key=lambda k: (_rank(k), k))]
    fam = {k[6:]: v for k, v in res.cov.extra.items() if k.startswith("cases_")}
    res.bounds = {"tier": tier, "tasks": len(T), "payload_alphabet": len(A.PAYLOADS),
                  "reject_alphabet": len(A.REJECTS), "either_alphabet": len(A.EITHER),
                  "noise_alphabet": len(A.NOISE), "max_reports": 4 if tier == "thorough" else 3,
                  "cases_per_family": fam}
    res.rule = (
        "Full cartesian products, no sampling: for each family, every report sequence over the stated payload alphabet "
        "(length<=2 over all 17 payloads; length 3 over 6 payloads in quick, over the 14 main payloads in thorough; length 4 over 4 payloads in thorough) x every placement of "
        "zero/one (F1d2: up to two) noise items in each of the k+1 slots before/between/after the reports (a noise item "
        "without trailing newline shares its line with the next report) x (F2) every wall-clock pattern in {lo,mid,hi}^k "
        "x perf-counter ties x Reporter variants; F3 mixes the rejection alphabet in; F5 adds non-UTF-8 noise. Each case "
        "= real Reporter calls on a captured stdout -> bytes written to /dev/shm/<tmp>/0/std.out -> real "
        "LocalBackend.stdout (readlines) -> real retrieve (also with line terminators stripped). distinct_nontrivial = "
        "measured number of distinct byte streams among cases with >=1 report and (>=1 noise item or a payload other "
        "than the flat numeric one); families are disjoint by construction (must-use filters), F2/F4 'no_cost' twins "
        "and default-clock duplicates are not counted.")
    res.assumptions = list(env.ASSUMPTIONS) + [
        "wall clock and perf_counter seen by Reporter are owned through the module attributes syne_tune.report.time / "
        ".perf_counter (probed per task; cap recorded if the seam is missing)",
        "non-decreasing st_worker_timestamp is demanded only between reports whose wall-clock readings are "
        "non-decreasing; for a wall clock that steps back only order, payload and counter are demanded",
        "noise never contains the text 'tune-metric' (a forged tag is a report by definition); payload values and keys do",
        "top-level None values, np.longdouble values and numpy keys of nested dicts may be rejected or accepted "
        "(rejection is not promised by the property); when accepted they must arrive as their normal form",
        "captured stdout is a TextIOWrapper(encoding=utf-8, newline='\\n') as on a redirected POSIX stream; only "
        "complete streams are parsed (a poll that observes a half-written line is outside the stated quantifier)",
        "exception type of a rejection is not prescribed; any exception counts as rejected",
    ]
    return res


def replay(data):
    case = data["case"]
    out = []
    with Bench() as b:
        res = b.run_case(case)
        for clause, detail in violations_of(res):
            out.append(Violation(PROP, clause + "|" + pattern(case), "%s: %s" % (clause, detail), data))
    want = data.get("clause")
    if want:
        out.sort(key=lambda v: not v.key.startswith(want + "|"))
    return out
