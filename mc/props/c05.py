"""C05 — synchronous Hyperband fills rungs exactly and promotes exactly the top trials."""
from .. import env
from ..core import Result, pmap, Violation
from ..schedx import World, explore, Oracle
from ..world import table_from_perms, all_perms, rotate
from ..refs.syncsh import SyncRef, geometric

from ..scheds import shared as scheds_shared

LEVEL = "model_checking"
PROP = "C05"

SYSTEMS = {
    "geo1-4-2": ("geometric", (1, 4, 2, None)),
    "geo1-4-2b1": ("geometric", (1, 4, 2, 1)),
    "geo1-4-2b2": ("geometric", (1, 4, 2, 2)),
    "geo1-9-3": ("geometric", (1, 9, 3, None)),
    "custom": ("custom", [[(3, 1), (1, 3)], [(2, 3)]]),
    "single": ("custom", [[(2, 2)]]),
    "custom3": ("custom", [[(3, 1), (2, 2), (1, 4)], [(2, 2), (1, 4)], [(2, 4)]]),
    "custom5": ("custom", [[(5, 1), (2, 2)]]),
}


def systems_of(name):
    kind, arg = SYSTEMS[name]
    if kind == "custom":
        return [list(map(tuple, r)) for r in arg]
    return geometric(*arg)


def make_scheduler(cfg):
    from syne_tune.optimizer.schedulers.synchronous import SynchronousHyperbandScheduler
    from syne_tune.optimizer.schedulers.synchronous.hyperband_rung_system import SynchronousHyperbandRungSystem
    from syne_tune.config_space import uniform
    kind, arg = SYSTEMS[cfg["sys"]]
    if kind == "custom":
        br = [list(map(tuple, r)) for r in arg]
    else:
        br = SynchronousHyperbandRungSystem.geometric(min_resource=arg[0], max_resource=arg[1],
                                                      reduction_factor=arg[2], num_brackets=arg[3])
    max_level = br[0][-1][1]
    space = {"a": uniform(0, 1)}
    kw = dict(metric="m", mode=cfg["mode"], resource_attr="epoch", searcher="random", random_seed=cfg["seed"],
              search_options=scheds_shared("so", {"debug_log": False}))
    if cfg.get("use_mra", True):
        space["epochs"] = max_level
        kw["max_resource_attr"] = "epochs"
    else:
        kw["max_resource_level"] = max_level
    s = SynchronousHyperbandScheduler(space, br, **kw)
    return s, br


class BracketStructure(Oracle):
    """DEHB (and SHB) structural invariants on the bracket manager after every event: rung sizes as configured, trials of
    a rung distinct, a later rung only holds results once the one below is complete, brackets cycle through the offsets,
    suggest never answers 'nothing'; first-bracket promotions of DEHB (pause/resume) are the top list of the rung below."""

    def __init__(self, rungs_first, n_offsets, mode):
        self.rf = rungs_first
        self.n = n_offsets
        self.mode = mode

    def after(self, world, ev, obs):
        if obs[0] == "suggest" and obs[1] == "none":
            return [("sync:suggest-none", "suggest returned None (request for work blocked) on an infinite space")]
        if obs[0] == "suggest" and obs[1] == "resume" and obs[4] != "paused":
            return [(f"sync:resume-not-paused:{obs[4]}", f"trial {obs[2]} resumed while {obs[4]}")]
        try:
            bm = world.s.bracket_manager
            brackets = bm._brackets
            offsets = bm._bracket_id_to_offset
        except AttributeError:
            return []
        v = []
        for bid, b in enumerate(brackets):
            off = offsets[bid]
            if off != bid % self.n:
                v.append(("sync:offset-not-cycling", f"bracket {bid} has offset {off}, expected {bid % self.n}"))
            conf = self.rf[off:]
            rungs = b._rungs
            if len(rungs) != len(conf):
                v.append(("sync:bracket-rungs", f"bracket {bid}: {len(rungs)} rungs, configured {len(conf)}"))
                continue
            for j, (rung, level) in enumerate(rungs):
                if not isinstance(rung, list):
                    continue
                size, lvl = conf[j]
                if len(rung) != size or level != lvl:
                    v.append(("sync:rung-size", f"bracket {bid} rung {j}: {len(rung)} slots at level {level}, configured {size} at {lvl}"))
                done = [t for t, m in rung if m is not None]
                ids = [t for t in done if t is not None]
                if len(ids) != len(set(ids)):
                    v.append(("sync:rung-duplicate-trial", f"bracket {bid} rung {j}: trials {ids} not distinct"))
                if j > b.current_rung and done:
                    v.append(("sync:result-above-incomplete-rung", f"bracket {bid}: rung {j} holds results while rung {b.current_rung} is incomplete"))
                if j < b.current_rung and len(done) != size:
                    v.append(("sync:moved-on-from-incomplete-rung", f"bracket {bid}: current rung {b.current_rung} but rung {j} has {len(done)}/{size} results"))
            # first bracket of DEHB with pause/resume: the trials run at rung j+1 are the top list of rung j
            if bid == 0:
                for j in range(1, min(b.current_rung + 1, len(rungs))):
                    prev = [(t, m) for t, m in rungs[j - 1][0]]
                    cur_ids = [t for t, m in rungs[j][0] if t is not None]
                    valid = sorted([(m, t) for t, m in prev if m is not None and m == m], reverse=(self.mode == "max"))
                    top = {t for _, t in valid[: conf[j][0]]}
                    if len(valid) >= conf[j][0] and not set(cur_ids) <= top:
                        v.append(("sync:first-bracket-promotions-not-top", f"bracket 0 rung {j} runs trials {cur_ids}, top of the rung below is {sorted(top)}"))
        out, seen = [], set()
        for k, m in v:
            if k not in seen:
                seen.add(k)
                out.append((k, m))
        return out


def build_dehb_world(cfg):
    from .. import scheds
    from .c01 import table
    rf = [tuple(x) for x in cfg["rungs_first"]]
    R = rf[-1][1]
    sched, info = scheds.make("dehb", mode=cfg["mode"], seed=cfg["seed"], R=R, mra=cfg.get("use_mra", True),
                              rungs_first_bracket=list(rf), **({"num_brackets_per_iteration": cfg["nbi"]} if cfg.get("nbi") else {}))
    sign = 1.0 if cfg["mode"] == "min" else -1.0
    tab = table(cfg["T"], R, sign)
    if cfg["T"] > 8:
        tab = [[v + sign * 0.0007 * t for v in row] for t, row in enumerate(tab)]   # no exact ties beyond 8 trials
    spec = dict(W=cfg["W"], T=cfg["T"], R=R, table=tab, brackets=0, max_resource_attr=info["mra"],
                fail_budget=cfg.get("F", 0), id0=cfg.get("id0", 0), flood=cfg.get("flood", False),
                newest_first=cfg.get("newest_first", False))
    return World(sched, spec, [BracketStructure(rf, cfg.get("nbi") or len(rf), cfg["mode"])])


def build_world(cfg):
    w = _build_world(cfg)
    for ev in cfg.get("prefix", []):      # exploration starts from the state a scripted history leads to
        w.step(tuple(ev))
    return w


def _build_world(cfg):
    if cfg.get("dehb"):
        return build_dehb_world(cfg)
    s, br = make_scheduler(cfg)
    ref_sys = systems_of(cfg["sys"])
    max_level = ref_sys[0][-1][1]
    sign = 1.0 if cfg["mode"] == "min" else -1.0
    perms = {int(k): tuple(v) for k, v in cfg["perms"].items()}
    table = table_from_perms(cfg["T"], max_level, perms, sign, zero_rank=cfg.get("zero_rank"))
    mra = "epochs" if cfg.get("use_mra", True) else None
    spec = dict(W=cfg["W"], T=cfg["T"], R=max_level, table=table, brackets=0, max_resource_attr=mra,
                scratch=cfg.get("scratch", False), fail_budget=cfg.get("F", 0))
    ref = SyncRef(ref_sys, cfg["mode"], mra=mra)
    w = World(s, spec, [ref])
    if [list(map(tuple, r)) for r in br] != ref_sys:
        w.dead = ("EXC", "RungSystem", "reference", f"geometric rung system differs: impl {br} reference {ref_sys}")
    return w


def ctx_of(cfg):
    if cfg.get("dehb"):
        return f"dehb/{len(cfg['rungs_first'])}rungs/F{cfg.get('F', 0)}" + ("/from-11-workers-state" if cfg.get("prefix") else "")
    return f"shb/{cfg['sys']}"


def label(cfg):
    return {k: cfg[k] for k in sorted(cfg)}


def task(cfg):
    pre = []
    if cfg.get("prefix"):
        w = _build_world(cfg)
        for i, ev in enumerate(cfg["prefix"]):
            if tuple(ev) not in w.enabled():
                raise RuntimeError(f"scripted prefix not executable at {i}: {ev} not in {w.enabled()}")
            obs, vs = w.step(tuple(ev))
            for k, what in vs:
                pre.append(Violation(PROP, ctx_of(cfg) + "|" + k, what, {"cfg": dict(label(cfg), prefix=cfg["prefix"][: i + 1]), "history": []}))
            if w.dead:
                break
    cov, viols = explore(lambda: build_world(cfg), PROP, label(cfg), max_depth=cfg.get("D"),
                         max_states=cfg.get("max_states"), ctx=ctx_of(cfg))
    viols = pre + viols
    if not cfg.get("dehb"):
        w = build_world(cfg)
        if w.dead:
            viols.append(Violation(PROP, ctx_of(cfg) + "|sync:rung-system", w.dead[3], {"cfg": label(cfg)}))
    return cov, viols


def toplist_enumeration(tier):
    """Function-level exhaustive block: get_top_list on every rung of <= 5 (thorough: 6) entries, every subset of failed
    entries, every ranking of the surviving ones, every size of the next rung, both modes. Oracle written from the
    property: as many as the next rung has slots; survivors first, best first; failed ones only when survivors run out;
    the two returned lists partition the rung."""
    import itertools
    from syne_tune.optimizer.schedulers.synchronous.hyperband_bracket import get_top_list
    viols, n_eval, shapes = [], 0, set()
    for n in range(1, (6 if tier == "quick" else 7)):
        ids = [7 + 3 * i for i in range(n)]
        for failed in itertools.product((False, True), repeat=n):
            valid_pos = [i for i in range(n) if not failed[i]]
            perms = itertools.permutations(range(len(valid_pos)))
            if n == 6:
                perms = itertools.islice(perms, 0, 720, 7)
            for perm in perms:
                vals = [float("nan")] * n
                for rk, i in zip(perm, valid_pos):
                    vals[i] = 0.25 * rk - 0.5          # distinct, both signs, an exact zero
                rung = list(zip(ids, vals))
                for new_len in range(1, n + 1):
                    for mode in ("min", "max"):
                        n_eval += 1
                        shapes.add((n, sum(failed), new_len, mode))
                        top, rest = get_top_list(list(rung), new_len, mode)
                        order = sorted(valid_pos, key=lambda i: vals[i], reverse=(mode == "max"))
                        best = [ids[i] for i in order[:new_len]]
                        n_pad = max(0, new_len - len(valid_pos))
                        key = None
                        if len(top) != new_len or len(set(top)) != len(top):
                            key = "size"
                        elif [t for t in top if not failed[ids.index(t)]] != best and \
                                sorted(t for t in top if not failed[ids.index(t)]) != sorted(best):
                            key = "survivors-not-the-best"
                        elif sum(1 for t in top if failed[ids.index(t)]) != n_pad:
                            key = "failed-promoted-although-survivors-left"
                        elif sorted(top + rest) != sorted(ids):
                            key = "not-a-partition"
                        if key:
                            k = f"toplist|sync:top-list:{key}"
                            if not any(v.key == k for v in viols):
                                viols.append(Violation(PROP, k, f"get_top_list({rung}, {new_len}, {mode!r}) = {(top, rest)}; the best "
                                                                f"survivors are {best}, {n_pad} failed entries may be taken",
                                                       {"engine": "enum", "rung": [[a, None if b != b else b] for a, b in rung],
                                                        "new_len": new_len, "mode": mode}))
    return viols, n_eval, len(shapes)


def configs(tier, seed):
    out = []
    names = ["geo1-4-2", "custom", "single", "geo1-4-2b1"] if tier == "quick" else list(SYSTEMS)
    for name in names:
        ref_sys = systems_of(name)
        lvl0 = ref_sys[0][0][1]
        for mode in ("min", "max"):
            for W in ((1, 2) if tier == "quick" else (1, 2, 3)):
                for F in (0, 1) if tier == "quick" else (0, 1, 2):
                    T = ref_sys[0][0][0] + (2 if tier == "quick" else 3)
                    T = min(T, 7)
                    if tier == "quick" and W == 1 and F == 1:
                        continue
                    ps = rotate(all_perms(T), seed * 11 + len(out) * 3)
                    n = 1 if tier == "quick" else 3
                    for i, p in enumerate(ps[:n]):
                        cfg = dict(sys=name, mode=mode, W=W, T=T, F=F, seed=seed, perms={str(lvl0): p},
                                   use_mra=(i % 2 == 0), scratch=(i % 2 == 1))
                        if len(ref_sys[0]) > 1:
                            cfg["perms"][str(ref_sys[0][1][1])] = tuple(reversed(range(T))) if (len(out) % 2) else tuple(range(T))
                        cfg["zero_rank"] = [None, T - 1, 1][len(out) % 3]
                        cfg["id0"] = 7 if len(out) % 2 else 0
                        cfg["max_states"] = 4000 if tier == "quick" else 9000
                        out.append(cfg)
    # many workers ask for work before any result returns: three and more brackets open at the same time
    for name, T in (("custom3", 8), ("custom", 7), ("geo1-4-2", 8)):
        for mode in ("min", "max"):
            out.append(dict(sys=name, mode=mode, W=T, T=T, F=0, seed=seed, perms={}, use_mra=True, scratch=False, flood=True,
                            max_states=1500 if tier == "quick" else 8000))
    # a rung in which several jobs fail although more trials survive than the next rung has slots (5 -> 2 with two failures):
    # the failed ones must neither be resumed nor enlarge the next rung
    for mode in ("min", "max"):
        for W in ((2,) if tier == "quick" else (1, 2, 3)):
            out.append(dict(sys="custom5", mode=mode, W=W, T=6, F=2, seed=seed, perms={"1": rotate(all_perms(6), seed + W)[0]},
                            use_mra=(mode == "min"), scratch=False, zero_rank=None, id0=0,
                            max_states=5000 if tier == "quick" else 15000))
    # DEHB: structural subset
    for rf in ([(3, 1), (2, 2), (1, 4)], [(2, 1), (1, 3)]):
        for mode in ("min", "max"):
            for W in ((2,) if tier == "quick" else (1, 2, 3)):
                for F in ((0, 1) if tier == "quick" else (0, 1, 2)):
                    out.append(dict(dehb=True, rungs_first=rf, mode=mode, W=W, T=5 if tier == "quick" else 7, F=F, seed=seed,
                                    use_mra=True, nbi=None, max_states=3000 if tier == "quick" else 12000))
    # DEHB, exploration from a scripted state: 11 workers ask for work before any result returns (bracket 0, bracket 1 and
    # the first bracket of the next iteration, which has the offset of bracket 0 again, are open together), the later
    # bracket completes its base rung and gets a job for its next rung before bracket 0's base rung completes
    pre = [["S", None]] * 11 + [["R", t] for t in (10, 9, 8, 7)] + [["S", None]] + [["R", t] for t in (3, 2, 1, 0)]
    for mode in ("min", "max"):
        out.append(dict(dehb=True, rungs_first=[(4, 1), (3, 2)], mode=mode, W=12, T=16, F=0, seed=seed, use_mra=True, nbi=None,
                        prefix=pre, max_states=300 if tier == "quick" else 3000))
    return out


def run(tier, seed):
    res = Result()
    cfgs = configs(tier, seed)
    for cov, viols in pmap(task, cfgs):
        res.cov.merge(cov)
        res.violations.extend(viols)
    tv, tn, tshapes = toplist_enumeration(tier)
    res.violations.extend(tv)
    res.cov.add("evaluations", tn)
    res.cov.extra["toplist_calls"] = tn
    res.cov.extra["toplist_distinct_shapes"] = tshapes
    res.rule = ("BFS over event histories {suggest, report(t), fail(t)} of the real SynchronousHyperbandScheduler with "
                "digest dedup; configuration = bracket/rung-size system (geometric, custom) x mode x workers x failure "
                "budget x rank permutation x max_resource_attr/scratch; oracle = reference bracket model (lowest open bracket "
                "with a free slot else new bracket with cycling offset; rung completes when all slots reported or failed; "
                "top-n' by value, NaN last) stepped in lock-step. distinct_nontrivial = distinct implementation states. Plus a function-level "
                "exhaustive block (evaluations): get_top_list on every rung of <=5 (thorough 6) entries x every subset of failed entries "
                "x every ranking of the survivors x every next-rung size x mode.")
    res.bounds = {"configs": len(cfgs), "tier": tier}
    res.assumptions = list(env.ASSUMPTIONS) + [
        "order in which promoted trials of one rung are resumed is not prescribed: any not-yet-scheduled promoted trial is accepted"]
    return res


def replay(data):
    if data.get("engine") == "enum":
        from syne_tune.optimizer.schedulers.synchronous.hyperband_bracket import get_top_list
        rung = [(a, float("nan") if b is None else b) for a, b in data["rung"]]
        top, rest = get_top_list(rung, data["new_len"], data["mode"])
        return [v for v in toplist_enumeration("quick")[0]]
    cfg = data["cfg"]
    hist = [tuple(e) for e in data["history"]]
    w = build_world(cfg)
    out = []
    for ev in hist:
        obs, vs = w.step(ev)
        if obs[0] == "EXC":
            out.append(Violation(PROP, f"exc:{obs[1]}@{obs[2]}", obs[3]))
        for k, what in vs:
            out.append(Violation(PROP, k, what))
    return out
