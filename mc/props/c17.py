"""C17 — the results log and the reported best configuration reflect what happened."""
import math
import numbers
import os
import sys
import types
import importlib.util

from .. import env
from ..core import Result, pmap, Violation
from .. import tunerx, scheds
from ..backends import ScriptedBackend, ScriptSpec
from ..world import BASE

LEVEL = "model_checking"
PROP = "C17"
ST_TUNER_TIME = "st_tuner_time"

EXTRA_ALPHABET = [1.5, 2, float("nan"), float("inf"), float("-inf"), "txt", True, -3, 0.1 + 0.2, "with,comma \"q\"", 7.25, False]


def load_experiment_result_module():
    """syne_tune.experiments imports visualization code that uses np.NaN (removed in numpy 2): load
    experiment_result.py alone under a stub package."""
    name = "syne_tune.experiments.experiment_result"
    if name in sys.modules:
        return sys.modules[name]
    import syne_tune
    root = os.path.dirname(syne_tune.__file__)
    if "syne_tune.experiments" not in sys.modules:
        pkg = types.ModuleType("syne_tune.experiments")
        pkg.__path__ = [os.path.join(root, "experiments")]
        sys.modules["syne_tune.experiments"] = pkg
    spec = importlib.util.spec_from_file_location(name, os.path.join(root, "experiments", "experiment_result.py"))
    mod = importlib.util.module_from_spec(spec)
    sys.modules[name] = mod
    import contextlib, io
    with contextlib.redirect_stdout(io.StringIO()):
        spec.loader.exec_module(mod)
    return mod


def primary(t, level, sign, variant):
    v = sign * (BASE[(t * 3 + 1) % len(BASE)] - 0.013 * level)
    if variant == "special":
        # NaN / inf / int values of the optimised metric itself (FIFO only)
        k = (t * 5 + level) % 6
        if k == 0:
            return float("nan")
        if k == 1:
            return float("inf") if sign > 0 else float("-inf")
        if k == 2:
            return int(round(v))
    return v


def build_factory(cfg):
    def build(chooser, log):
        from syne_tune import Tuner, StoppingCriterion
        from syne_tune.results_callback import StoreResultsCallback
        R = cfg["R"]
        # RegularCallback (periodic store of the results) reads datetime.now() and compares whole seconds: the harness owns that
        # clock - it advances 2 s per reading when the configuration asks for a store after every result, else it stands still
        import datetime as _dt
        import syne_tune.util as _util

        class _Clock:
            t = _dt.datetime(2020, 1, 1)
            step = _dt.timedelta(seconds=2 if cfg["interval"] < 1 else 0)

            @classmethod
            def now(cls):
                cls.t = cls.t + cls.step
                return cls.t
        _util.datetime = _Clock
        sched, info = scheds.make(cfg["kind"], mode=cfg["mode"], seed=cfg["seed"], R=R, mra=cfg.get("mra", True))
        tunerx.wrap_scheduler(sched, log)
        sign = 1.0 if cfg["mode"] == "min" else -1.0
        two = info["metrics"] is not None

        def value_fn(t, level, run):
            v = primary(t, level, sign, cfg["variant"])
            return (v, BASE[(t * 5 + 2) % len(BASE)] + 0.01 * level) if two else v

        def extra(t, level, run):
            d = {}
            if cfg["extra"]:
                d["x"] = EXTRA_ALPHABET[(t * 4 + level * 3 + run) % len(EXTRA_ALPHABET)]
                if (t + level) % 3 == 0:
                    d["y"] = EXTRA_ALPHABET[(t + level * 5) % len(EXTRA_ALPHABET)]   # a metric that is not always reported
            if cfg.get("own_time"):
                # the backend stamps the tuner time itself (as the simulator backend does): the stamps of results of different
                # trials are then not increasing in delivery order
                d[ST_TUNER_TIME] = 10.0 * level + 0.37 * (7 - t) + 3.0 * run
            return d
        R_job = R + 2 if cfg["kind"] == "pbt" else R
        spec = ScriptSpec(None, R_job, metrics=info["metrics"], max_resource_attr=info["mra"], checkpointing=True,
                          extra=extra, value_fn=value_fn)
        backend = ScriptedBackend(chooser, spec, cfg["W"], profile=cfg["profile"], fault_budget=cfg.get("F", 0),
                                  faults=("crash",), log=log, late_results=False)
        rec = tunerx.make_recorder_callback(log, loop_cap=cfg.get("loop_cap", 150))
        store = StoreResultsCallback()
        tuner = Tuner(trial_backend=backend, scheduler=sched, stop_criterion=StoppingCriterion(**cfg["stop"]),
                      n_workers=cfg["W"], sleep_time=0, callbacks=[rec, store], save_tuner=False, suffix_tuner_name=False,
                      tuner_name="verif-c17", max_failures=5, results_update_interval=cfg["interval"],
                      wait_trial_completion_when_stopping=cfg.get("wait", False))
        return dict(tuner=tuner, backend=backend, scheduler=sched, store=store, info=info)
    return build


def is_num(x):
    return isinstance(x, numbers.Number)


def same(a, b, rel=1e-12):
    """NaN-aware equality up to the last digits of floating-point text"""
    if a is None or (isinstance(a, float) and math.isnan(a)):
        return b is None or (isinstance(b, float) and math.isnan(b)) or (isinstance(b, str) and b in ("", "nan"))
    if isinstance(a, bool) or isinstance(b, bool):
        return str(a) == str(b) or (is_num(a) and is_num(b) and float(a) == float(b))
    if is_num(a) and is_num(b):
        a, b = float(a), float(b)
        if math.isinf(a) or math.isinf(b):
            return a == b
        return abs(a - b) <= rel * max(1.0, abs(a), abs(b))
    if is_num(a) and isinstance(b, str):
        try:
            return same(a, float(b))
        except ValueError:
            return str(a) == b
    if isinstance(a, str) and is_num(b):
        return same(b, a)
    return str(a) == str(b)


def ref_stats(values_by_name):
    """min/max/sum under the documented 'first value fixes the type of the metric' rule"""
    out = {}
    for name, vals in values_by_name.items():
        if not vals or not is_num(vals[0]):
            continue  # first value non-numeric: never tracked ... unless a later numeric one re-opens it
        mn, mx, sm = float("inf"), float("-inf"), 0
        for x in vals:
            if not is_num(x):
                break  # type flipped to non-numeric: tracking stops (is_numeric becomes False for good)
            mn = min(mn, x)
            mx = max(mx, x)
            sm = sm + x
        out[name] = (mn, mx, sm)
    return out


def check_factory(cfg):
    def check(ex):
        import pandas as pd
        from syne_tune.constants import ST_TUNER_TIME
        v = []
        log = ex.log
        store = ex.extra["store"]
        info = ex.extra["info"]
        tuner = ex.tuner
        delivered = [e for e in log if e[0] == "on_trial_result" and e[3] != "RAISED"]
        rows = store.results
        if ex.exc is not None:
            if ex.exc[0] != "LoopCap" and not (ex.exc[0] == "ValueError" and "no metrics got observed" in ex.exc[2]):
                v.append((f"exc:{ex.exc[0]}@{ex.exc[1]}", f"{ex.exc[0]} escaped Tuner.run at {ex.exc[1]}: {ex.exc[2]}"))
        # (1) one row per delivered result, in order, with values, trial id, full config, decision, time stamp
        if len(rows) != len(delivered):
            v.append(("log:row-count", f"{len(delivered)} results delivered to the scheduler, {len(rows)} rows in the results table"))
        for i, (row, e) in enumerate(zip(rows, delivered)):
            _, t, res, dec, tcfg = e
            bad = None
            if row.get("trial_id") != t:
                bad = f"trial_id {row.get('trial_id')} != {t}"
            elif row.get("st_decision") != dec:
                bad = f"decision {row.get('st_decision')} != {dec}"
            elif any(k not in row or not (row[k] is res[k] or same(row[k], res[k], 0.0)) for k in res):
                bad = f"values differ: row {({k: row.get(k) for k in res})} delivered {res}"
            elif any(("config_" + k) not in row or row["config_" + k] != val for k, val in tcfg.items()):
                bad = f"configuration columns {({k: row.get('config_' + k) for k in tcfg})} != trial configuration {tcfg}"
            elif ST_TUNER_TIME not in row or not is_num(row[ST_TUNER_TIME]) or row[ST_TUNER_TIME] < 0:
                bad = "no tuner time stamp"
            elif "st_status" not in row:
                bad = "no status"
            if bad:
                v.append(("log:row-content", f"row {i}: {bad}"))
                break
        # the dict handed to the scheduler must not be altered by logging it
        for e in log:
            if e[0] == "on_trial_complete":
                last = [d for d in delivered if d[1] == e[1]]
                if last and set(e[2]) != set(last[-1][2]):
                    v.append(("log:delivered-result-mutated", f"on_trial_complete(trial {e[1]}) got keys {sorted(e[2])}, the result delivered "
                                                               f"last had {sorted(last[-1][2])}"))
                    break
        # (2) CSV on disk == in-memory frame
        path = store.csv_file
        if ex.exc is None:
            if not rows:
                pass
            elif path is None or not os.path.exists(path):
                v.append(("log:file-missing", f"results file {path} not written"))
            else:
                df = pd.read_csv(path)
                mem = pd.DataFrame(rows)
                if list(df.columns) != list(mem.columns) or len(df) != len(mem):
                    v.append(("log:file-shape", f"file has {len(df)} rows / columns {list(df.columns)}, memory {len(mem)} / {list(mem.columns)}"))
                else:
                    done = False
                    for col in mem.columns:
                        for i in range(len(mem)):
                            a, b = mem[col].iloc[i], df[col].iloc[i]
                            a = a.item() if hasattr(a, "item") else a
                            b = b.item() if hasattr(b, "item") else b
                            if not same(a, b):
                                v.append(("log:file-differs", f"column {col} row {i}: memory {a!r} file {b!r}"))
                                done = True
                                break
                        if done:
                            break
        # (3)-(5) statistics and best configuration over everything the backend handed to the loop
        fetched = [(t, r) for e in log if e[0] == "fetch" for t, r in e[2]]
        ts = tuner.tuning_status
        if ts is not None and ex.exc is None:
            names = sorted({k for _, r in fetched for k in r})
            by_all = {n: [r[n] for _, r in fetched if n in r] for n in names}
            ref = ref_stats(by_all)
            oms = ts.overall_metric_statistics
            if oms.count != len(fetched):
                v.append(("stats:overall-count", f"overall count {oms.count}, {len(fetched)} results were handed to the loop"))
            for n, (mn, mx, sm) in ref.items():
                got = (oms.min_metrics.get(n), oms.max_metrics.get(n), oms.sum_metrics.get(n))
                if not (same(got[0], mn, 0.0) and same(got[1], mx, 0.0) and same(got[2], sm, 1e-12)):
                    v.append(("stats:overall-min-max-sum", f"metric {n}: tracked (min,max,sum) {got}, recomputed {(mn, mx, sm)}"))
                    break
            trials = sorted({t for t, _ in fetched})
            # derived totals: time / cost spent in the workers = sum over trials of the largest value a trial reported (the
            # columns 'worker-time' / 'worker-cost' of the per-trial rows); a resumed job's clock starts at 0 again
            for attr, key in (("user_time", "st_worker_time"), ("cost", "st_worker_cost")):
                per_trial = {}
                for t_, r_ in fetched:
                    if key in r_ and is_num(r_[key]):
                        per_trial[t_] = max(per_trial.get(t_, r_[key]), r_[key])
                if per_trial and not same(getattr(ts, attr), sum(per_trial.values()), 1e-12):
                    v.append((f"stats:{attr}", f"TuningStatus.{attr} = {getattr(ts, attr)}, the per-trial maxima of {key} handed to the loop "
                                               f"are {per_trial} (sum {sum(per_trial.values())})"))
            for t in trials:
                mine = [r for tt, r in fetched if tt == t]
                st = ts.trial_metric_statistics[t]
                if st.count != len(mine):
                    v.append(("stats:trial-count", f"trial {t}: count {st.count}, {len(mine)} results handed to the loop"))
                    break
                reft = ref_stats({n: [r[n] for r in mine if n in r] for n in names})
                bad = [n for n, (mn, mx, sm) in reft.items()
                       if not (same(st.min_metrics.get(n), mn, 0.0) and same(st.max_metrics.get(n), mx, 0.0) and same(st.sum_metrics.get(n), sm, 1e-12))]
                if bad:
                    v.append(("stats:trial-min-max-sum", f"trial {t} metric {bad[0]}: tracked {(st.min_metrics.get(bad[0]), st.max_metrics.get(bad[0]), st.sum_metrics.get(bad[0]))}, "
                                                         f"recomputed {reft[bad[0]]}"))
                    break
            # best configuration per metric
            metric_names = tuner.scheduler.metric_names()
            modes = tuner.scheduler.metric_mode()
            for mi, mname in enumerate(metric_names):
                mode = modes[mi] if isinstance(modes, list) else modes
                vals = [(t, r[mname]) for t, r in fetched if mname in r and is_num(r[mname]) and not (isinstance(r[mname], float) and math.isnan(r[mname]))]
                if not vals or ex.exc is not None:
                    continue
                opt = min(x for _, x in vals) if mode == "min" else max(x for _, x in vals)
                winners = {t for t, x in vals if x == opt}
                try:
                    import contextlib, io
                    with contextlib.redirect_stdout(io.StringIO()):
                        bt, bcfg = tuner.best_config(metric=mi)
                except Exception as exn:
                    v.append((f"best:tuner-raises:{type(exn).__name__}", f"Tuner.best_config({mi}) raised {exn!r}"))
                    continue
                if bt not in winners:
                    v.append(("best:tuner-not-optimal", f"Tuner.best_config({mname},{mode}) returned trial {bt}; optimum {opt} was attained by {sorted(winners)}"))
                elif bcfg != ex.backend._trial_dict[bt].config:
                    v.append(("best:tuner-wrong-config", f"Tuner.best_config returned config {bcfg} for trial {bt}"))
                # loaded experiment: optimum over the rows of the table
                if rows and path is not None and os.path.exists(path):
                    er = load_experiment_result_module()
                    exp = er.load_experiment(tuner.name, download_if_not_found=False)
                    rvals = [(r["trial_id"], r[mname]) for r in rows if mname in r and is_num(r[mname]) and not (isinstance(r[mname], float) and math.isnan(r[mname]))]
                    if exp.results is not None and mi == 0:
                        got_rows = [(int(a), b) for a, b in zip(exp.results["trial_id"], exp.results[ST_TUNER_TIME])]
                        want_rows = [(int(r["trial_id"]), r[ST_TUNER_TIME]) for r in rows]
                        if len(got_rows) != len(want_rows) or any(a[0] != b[0] or not same(a[1], b[1]) for a, b in zip(got_rows, want_rows)):
                            v.append(("log:loaded-table-differs", f"rows (trial_id, time stamp) of the loaded experiment {got_rows[:8]} != "
                                                                  f"delivered order {want_rows[:8]}"))
                    if rvals and exp.results is not None:
                        ropt = min(x for _, x in rvals) if mode == "min" else max(x for _, x in rvals)
                        try:
                            bc = exp.best_config(metric=mi)
                        except Exception as exn:
                            v.append((f"best:experiment-raises:{type(exn).__name__}", f"ExperimentResult.best_config({mi}) raised {exn!r}"))
                            continue
                        if not same(bc.get(mname), ropt, 1e-12):
                            v.append(("best:experiment-not-optimal", f"loaded experiment's best_config({mname},{mode}) has {mname}={bc.get(mname)}, optimum over rows is {ropt}"))
        ex.n_rows = len(rows)
        out, seen = [], set()
        for key, msg in v:
            if key not in seen:
                seen.add(key)
                out.append((key, msg))
        return out
    return check


def ctx_of(cfg):
    return f"{cfg['kind']}/{cfg['variant']}/{'extra' if cfg['extra'] else 'plain'}"


def label(cfg):
    d = {k: cfg[k] for k in sorted(cfg) if k != "profile"}
    d["profile"] = tunerx.profile_name(cfg["profile"])
    return d


def task(cfg):
    return tunerx.explore(build_factory(cfg), check_factory(cfg), PROP, label(cfg), bound=cfg["k"], max_exec=cfg.get("max_exec"),
                          loop_cap=cfg.get("loop_cap", 150), ctx=ctx_of(cfg),
                          state_of=lambda ex: [(getattr(ex, "n_rows", 0), sum(1 for e in ex.log if e[0] == "schedule"))])


def configs(tier, seed):
    out = []
    i = 0
    for kind in ("fifo-random", "hb-stopping", "hb-promotion", "moasha", "shb", "pbt", "median"):
        for variant in ("plain", "special"):
            if variant == "special" and kind not in ("fifo-random",):
                continue
            for extra in (True, False):
                for mode in ("min", "max"):
                    for interval in (1e-9, 1e9):
                        for W in (1, 2):
                            for pi, prof in enumerate(tunerx.PROFILES):
                                i += 1
                                if (i + seed) % (16 if tier == "quick" else 3) != 0:
                                    continue
                                out.append(dict(kind=kind, variant=variant, extra=extra, mode=mode, interval=interval, W=W, R=3, mra=(len(out) % 3 != 0),
                                                own_time=(len(out) % 2 == 0),   # (not i: the sub-sampling is periodic in i)
                                                seed=seed, profile=prof, F=1, stop={"max_num_trials_started": 4},
                                                wait=(pi % 2 == 0), k=1 if tier == "quick" else 2,
                                                max_exec=120 if tier == "quick" else 2000))
    return out


def run(tier, seed):
    res = Result()
    cfgs = configs(tier, seed)
    for cov, viols in pmap(task, cfgs):
        res.cov.merge(cov)
        res.violations.extend(viols)
    res.rule = ("Stateless deviation-bounded exploration of the real Tuner.run + StoreResultsCallback over ScriptedBackend: scheduler x "
                "mode x metric value alphabet (floats, ints, NaN, +-inf, strings, bools; optional and multi metrics) x store interval "
                "(every result / only at the end) x workers x <=k environment deviations (incl. a crash before the first report). "
                "Oracle: row i == delivered result i (+trial id, full configuration at delivery time, decision, time stamp); CSV read "
                "back == in-memory table (NaN-aware, rel 1e-12); Tuner.best_config in argopt over all results handed to the loop; "
                "loaded experiment's best_config in argopt over rows; per-trial/overall min,max,sum,count recomputed under the "
                "'first value fixes the type' rule. states = distinct (#rows, #starts).")
    res.bounds = {"configs": len(cfgs), "tier": tier}
    res.assumptions = list(env.ASSUMPTIONS) + [
        "syne_tune/experiments/experiment_result.py loaded under a stub package (visualization uses np.NaN, removed in numpy 2)"]
    return res


def replay(data):
    cfg = dict(data["cfg"])
    b, r, l = cfg["profile"].split("/")
    cfg["profile"] = dict(burst=b == "burst", rr=r == "rr", lag=l == "lag")
    ex = tunerx.run_tuner(build_factory(cfg), tunerx.Chooser(data["choices"]), cfg.get("loop_cap", 150))
    out = [Violation(PROP, k, w) for k, w in check_factory(cfg)(ex)]
    tunerx.clean_scratch()
    return out
