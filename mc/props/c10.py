"""C10 — simulated experiments replay the benchmark table faithfully in values and time
(also carries the simulator half of C02: per-run delivery is a prefix of what the run would report)."""
import numpy as np

from .. import env
from ..core import Result, pmap, Violation
from .. import tunerx, scheds

LEVEL = "model_checking"
PROP = "C10"

TIME_COLUMNS = {
    "monotone": lambda c, s, f: (f + 1) * (1.0 + 0.1 * c) + 0.03 * s,
    "nonmono": lambda c, s, f: [1.0, 0.9, 2.0, 1.95][f % 4] * (1.0 + 0.1 * c) + 0.03 * s,
    "constant": lambda c, s, f: 1.0,
    "tiny": lambda c, s, f: 0.01 * (f + 1),
}
SIMCONF = {
    "default": {},
    "zero": dict(delay_on_trial_result=0, delay_complete_after_final_report=0, delay_complete_after_stop=0, delay_start=0,
                 delay_stop=0),
    "slowstop": dict(delay_stop=0.5),
    "late": dict(delay_on_trial_result=0.2, delay_complete_after_final_report=0.2, delay_start=0.3),
}
OUTSIDE = [0.0, 0.3, 7.0]


def loss_value(c, s, f):
    return 10.0 * c + 3.0 * s + 0.37 * (4 - f) + 0.0123 * c * f


def make_blackbox(n_a, n_seeds, n_fid, timecol):
    import pandas as pd
    from syne_tune.blackbox_repository.blackbox_tabular import BlackboxTabular
    from syne_tune.config_space import choice, randint
    avals = list(range(n_a))
    rows = [(a, b) for a in avals for b in ("x", "y")]
    hp = pd.DataFrame({"a": [r[0] for r in rows], "b": [r[1] for r in rows]})
    cs = {"a": choice(avals), "b": choice(["x", "y"])}
    fs = {"epoch": randint(1, n_fid)}
    obj = np.zeros((len(rows), n_seeds, n_fid, 2))
    tf = TIME_COLUMNS[timecol]
    for c in range(len(rows)):
        for s in range(n_seeds):
            for f in range(n_fid):
                obj[c, s, f, 0] = loss_value(c, s, f)
                obj[c, s, f, 1] = tf(c, s, f)
    bb = BlackboxTabular(hp, cs, fs, obj, objectives_names=["loss", "time"])
    return bb, cs, rows, obj


def build_factory(cfg):
    def build(chooser, log):
        from syne_tune import Tuner, StoppingCriterion
        from syne_tune.blackbox_repository import UserBlackboxBackend
        from syne_tune.backend.simulator_backend.simulator_backend import SimulatorConfig
        from syne_tune.backend.simulator_backend.simulator_callback import SimulatorCallback
        from syne_tune.backend.simulator_backend.time_keeper import SimulatedTimeKeeper
        from syne_tune.tuner_callback import TunerCallback

        bb, cs, rows, obj = make_blackbox(cfg["n_a"], cfg["n_seeds"], cfg["R"], cfg["timecol"])

        class ChoiceTimeKeeper(SimulatedTimeKeeper):
            # the real time spent outside the backend since its last exit is one environment answer per exit: asking again
            # before the next mark_exit() gives the same answer (and charging it again is charging waiting time twice)
            _epoch, _pending = 0, None

            def mark_exit(self):
                super().mark_exit()
                self._epoch += 1
                self._pending = None

            def real_time_since_last_recent_exit(self):
                self._assert_has_started()
                again = self._pending is not None
                if not again:
                    self._pending = OUTSIDE[chooser.choose("outside", len(OUTSIDE))] if cfg.get("outside", True) else 0.0
                log.append(("outside", self._epoch, self._pending, again))
                return self._pending

        class SimBackend(UserBlackboxBackend):
            # besides the C10 probes, emit the ground-truth events monitors.lifecycle understands (used by C01)
            _v_run = {}
            _v_occ = set()
            _v_polls = 0
            _v_stop_all = False

            def _schedule(self, trial_id, config):
                r = self._v_run.get(trial_id, -1) + 1
                self._v_run[trial_id] = r
                occ = len(self._v_occ)
                super()._schedule(trial_id, config)
                self._v_occ.add(trial_id)
                log.append(("schedule", trial_id, r, 0, 0, occ, False, False))
                log.append(("sim_schedule", trial_id, self._time_keeper.time(), dict(config)))

            def _resume_trial(self, trial_id):
                log.append(("resume", trial_id, True, False))
                super()._resume_trial(trial_id)

            def _process_complete_event(self, trial_id, time_event, status):
                super()._process_complete_event(trial_id, time_event, status)
                self._v_occ.discard(trial_id)
                if status == "Completed":
                    log.append(("exit", trial_id, self._v_run.get(trial_id)))
                elif status == "Failed":
                    log.append(("crash", trial_id, self._v_run.get(trial_id)))

            def fetch_status_results(self, trial_ids):
                self._v_polls += 1
                log.append(("poll", self._v_polls, tuple(trial_ids)))
                return super().fetch_status_results(trial_ids)

            def stop_all(self):
                log.append(("stop_all",))
                super().stop_all()

            def pause_trial(self, trial_id, result=None):
                log.append(("sim_pause", trial_id, None if result is None else result.get("epoch"), self._time_keeper.time()))
                super().pause_trial(trial_id, result)
                log.append(("pause", trial_id, self._v_run.get(trial_id)))
                log.append(("sim_clock", self._time_keeper.time()))

            def stop_trial(self, trial_id, result=None):
                log.append(("sim_stop", trial_id, self._time_keeper.time()))
                super().stop_trial(trial_id, result)
                log.append(("stop", trial_id, self._v_run.get(trial_id)))
                log.append(("sim_clock", self._time_keeper.time()))

        mra = "epochs" if cfg["mra"] else None
        backend = SimBackend(blackbox=bb, elapsed_time_attr="time", max_resource_attr=mra,
                             seed=cfg.get("bseed"), support_checkpointing=cfg["ckpt"],
                             simulator_config=SimulatorConfig(**SIMCONF[cfg["simconf"]]),
                             tuner_sleep_time=cfg["sleep"])
        backend._time_keeper = ChoiceTimeKeeper()
        backend._v_run, backend._v_occ = {}, set()
        sched, info = scheds.make(cfg["kind"], mode="min", seed=cfg["seed"], R=cfg["R"], mra=cfg["mra"], space=cs,
                                  metric="loss", allow_duplicates=True, set_tk=False)
        tunerx.wrap_scheduler(sched, log)

        class ClockProbe(TunerCallback):
            def __init__(self, tag):
                self.tag = tag

            def on_tuning_sleep(self, sleep_time):
                log.append(("sleep_" + self.tag, backend.time_keeper.time()))

            def on_loop_end(self):
                if self.tag == "after":
                    log.append(("sim_clock", backend.time_keeper.time()))

            def on_fetch_status_results(self, trial_status_dict, new_results):
                if self.tag == "after":
                    log.append(("sim_clock", backend.time_keeper.time()))

        rec = tunerx.make_recorder_callback(log, loop_cap=cfg.get("loop_cap", 400))
        simcb = SimulatorCallback()
        tuner = Tuner(trial_backend=backend, scheduler=sched, stop_criterion=StoppingCriterion(**cfg["stop"]),
                      n_workers=cfg["W"], sleep_time=0, callbacks=[rec, ClockProbe("before"), simcb, ClockProbe("after")],
                      save_tuner=False, suffix_tuner_name=False, tuner_name="verif-c10", max_failures=3,
                      start_jobs_without_delay=cfg.get("nodelay", True))
        return dict(tuner=tuner, backend=backend, scheduler=sched, simcb=simcb, obj=obj, rows=rows)
    return build


def make_sched_metric(kind):
    return "loss"


def expected_run(cfg, obj, rows, config, seed, p, T_s):
    """what a run of this config must report: list of (level, loss, elapsed', st_tuner_time)"""
    from .c10 import SIMCONF  # noqa
    sc = dict(delay_on_trial_result=0.05, delay_start=0.05)
    sc.update({k: v for k, v in SIMCONF[cfg["simconf"]].items() if k in sc})
    c = rows.index((config["a"], config["b"]))
    R = cfg["R"]
    top = min(R, int(config["epochs"])) if (cfg["mra"] and "epochs" in config) else R
    off = obj[c, seed, p - 1, 1] if p else 0.0
    out = []
    prev = None
    for r in range((p or 0) + 1, top + 1):
        el = obj[c, seed, r - 1, 1] - off
        el = max(el, 0.01) if prev is None else max(el, prev + 0.01)
        prev = el
        out.append((r, obj[c, seed, r - 1, 0], el, T_s + sc["delay_start"] + el + sc["delay_on_trial_result"]))
    return out


def close(a, b):
    return abs(a - b) <= 1e-9 * max(1.0, abs(a), abs(b))


def check_factory(cfg):
    def check(ex):
        v = []
        log = ex.log
        obj, rows = ex.extra["obj"], ex.extra["rows"]
        n_seeds = cfg["n_seeds"]
        cur = {}            # trial -> dict(T_s, config, delivered=[...], p)
        seed_of = {}
        paused_at = {}
        last_clock = None
        sleep_before = None
        decided = set()
        polls_since_pause = {}
        resumed_after_polls = {}
        raised_on_stale = None
        for e in log:
            k = e[0]
            if k in ("sim_clock", "sim_schedule", "sleep_before", "sleep_after", "sim_pause", "sim_stop"):
                clk = e[1] if k in ("sim_clock", "sleep_before", "sleep_after") else (e[2] if k in ("sim_schedule", "sim_stop") else e[3])
                if last_clock is not None and clk < last_clock - 1e-12:
                    v.append(("clock:runs-backwards", f"simulated time went from {last_clock} to {clk} at {k}"))
                last_clock = clk
            if k == "outside" and e[3] and e[2] > 0:
                v.append(("clock:outside-time-charged-twice", f"{e[2]} s spent outside the backend (since its exit #{e[1]}) were added to the "
                                                              f"simulated clock a second time"))
            if k == "sleep_before":
                sleep_before = e[1]
            elif k == "sleep_after":
                if sleep_before is not None and not close(e[1] - sleep_before, cfg["sleep"]):
                    v.append(("clock:sleep-not-charged-once", f"one tuner sleep advanced simulated time by {e[1] - sleep_before}, tuner_sleep_time is {cfg['sleep']}"))
                sleep_before = None
            elif k == "sim_schedule":
                t = e[1]
                p = paused_at.pop(t, None) if cfg["ckpt"] else None
                paused_at.pop(t, None)
                cur[t] = dict(T_s=e[2], config=e[3], delivered=0, p=p, exp=None)
                resumed_after_polls[t] = polls_since_pause.pop(t, None)
                decided.discard(t)
            elif k == "sim_pause":
                polls_since_pause[e[1]] = 0
                if e[2] is not None:
                    paused_at[e[1]] = int(e[2])
            elif k == "poll":
                for t_ in polls_since_pause:
                    polls_since_pause[t_] += 1
            elif k == "on_trial_result":
                t, res, dec, tcfg = e[1], e[2], e[3], e[4]
                run = cur.get(t)
                if run is None:
                    v.append(("sim:result-without-run", f"result for trial {t} which was never scheduled"))
                    continue
                if t in decided:
                    v.append(("sim:delivered-after-decision", f"trial {t}: result at level {res.get('epoch')} delivered after the stop/pause decision of this run"))
                sc_start = dict(delay_start=0.05)
                sc_start.update({k2: v2 for k2, v2 in SIMCONF[cfg["simconf"]].items() if k2 in sc_start})
                stt = res.get("st_tuner_time")
                if stt is not None and stt < run["T_s"] + sc_start["delay_start"] - 1e-9:
                    variant = "resumed-in-the-iteration-it-was-paused" if resumed_after_polls.get(t) == 0 else "after-intervening-polls"
                    if dec == "RAISED":
                        raised_on_stale = variant
                    v.append((f"sim:stale-result-of-previous-run:{variant}",
                              f"trial {t}: result at level {res.get('epoch')} stamped {stt} was delivered to the run started at "
                              f"{run['T_s']} (+delay_start {sc_start['delay_start']}): it was reported by the previous run of the trial, "
                              f"after the decision to pause it"))
                    run["exp"] = []
                    continue
                if run["exp"] is None:
                    # identify the trial's seed from its first result (then it is fixed for all runs of the trial)
                    cands = [seed_of[t]] if t in seed_of else ([cfg["bseed"]] if cfg.get("bseed") is not None else list(range(n_seeds)))
                    drawn = getattr(ex.backend, "_seed_for_trial", {}).get(t)
                    if t not in seed_of and cfg.get("bseed") is None and drawn is not None:
                        # the seed the backend drew and recorded for this trial (part of its saved state): the rows must be
                        # those of this seed, not of any seed (a duplicate configuration may have been run with another one)
                        cands = [int(drawn)]
                    chosen = None
                    for s in cands:
                        exp = expected_run(cfg, obj, rows, run["config"], s, run["p"], run["T_s"])
                        if exp and exp[0][1] == res.get("loss"):
                            chosen = (s, exp)
                            break
                    if chosen is None:
                        exp0 = expected_run(cfg, obj, rows, run["config"], cands[0], run["p"], run["T_s"])
                        first = exp0[0] if exp0 else None
                        why = "seed-changed" if t in seed_of and len(cands) == 1 and any(
                            (lambda ex2: ex2 and ex2[0][1] == res.get("loss"))(expected_run(cfg, obj, rows, run["config"], s2, run["p"], run["T_s"]))
                            for s2 in range(n_seeds)) else "first-result"
                        v.append((f"sim:run-start-mismatch:{why}",
                                  f"trial {t} (config {run['config']}, resumed from {run['p']}): first delivered result of the run is "
                                  f"level {res.get('epoch')} loss {res.get('loss')} st_tuner_time {res.get('st_tuner_time')}; the table says "
                                  f"level/loss/time {first}"))
                        run["exp"] = []
                        continue
                    seed_of[t] = chosen[0]
                    run["exp"] = chosen[1]
                i = run["delivered"]
                run["delivered"] += 1
                if not run["exp"]:
                    continue
                if i >= len(run["exp"]):
                    v.append(("sim:more-results-than-table", f"trial {t}: result #{i} delivered, the run reports only {len(run['exp'])}"))
                    continue
                lv, loss, el, tt = run["exp"][i]
                if res.get("epoch") != lv:
                    v.append(("sim:levels-not-consecutive", f"trial {t}: result #{i} of the run is level {res.get('epoch')}, expected {lv} (resumed from {run['p']})"))
                elif res.get("loss") != loss:
                    v.append(("sim:metric-differs-from-table", f"trial {t} level {lv}: loss {res.get('loss')} != table {loss}"))
                elif not close(res.get("st_tuner_time"), tt):
                    v.append(("sim:time-stamp", f"trial {t} level {lv}: st_tuner_time {res.get('st_tuner_time')} != start {run['T_s']} + delays + elapsed = {tt}"))
                elif not close(res.get("time"), el):
                    v.append(("sim:elapsed", f"trial {t} level {lv}: elapsed {res.get('time')} != {el}"))
                if last_clock is not None and res.get("st_tuner_time") is not None and res["st_tuner_time"] > last_clock + 1e-9:
                    v.append(("clock:result-from-the-future", f"trial {t}: result stamped {res['st_tuner_time']} delivered at simulated time {last_clock}"))
                if dec in ("STOP", "PAUSE"):
                    decided.add(t)
            elif k == "on_trial_complete":
                t = e[1]
                run = cur.get(t)
                if run is not None and run["exp"] and run["delivered"] != len(run["exp"]):
                    v.append(("sim:completed-run-incomplete", f"trial {t} completed, {run['delivered']} of {len(run['exp'])} results delivered"))
        # results table rows == delivered results
        simcb = ex.extra.get("simcb")
        if simcb is not None:
            delivered = [(e[1], e[2].get("epoch"), e[2].get("st_tuner_time")) for e in log if e[0] == "on_trial_result" and e[3] != "RAISED"]
            rows_ = [(int(r["trial_id"]), r.get("epoch"), r.get("st_tuner_time")) for r in simcb.results]
            if rows_ != delivered:
                v.append(("sim:results-table-differs", f"{len(rows_)} rows vs {len(delivered)} delivered results"))
        if ex.exc is not None and ex.exc[0] != "LoopCap":
            # root cause named in the key: the scheduler raised on a stale result of the previous run (reported separately above)
            why = f":on-stale-result-of-previous-run:{raised_on_stale}" if raised_on_stale and ex.exc[1].endswith("on_trial_result") else ""
            v.append((f"exc:{ex.exc[0]}@{ex.exc[1]}{why}", f"{ex.exc[0]} escaped Tuner.run at {ex.exc[1]}: {ex.exc[2]}"))
        ex.n_rows = sum(1 for e in log if e[0] == "on_trial_result")
        out, seen = [], set()
        for key, msg in v:
            if key not in seen:
                seen.add(key)
                out.append((key, msg))
        return out
    return check


def ctx_of(cfg):
    return (f"{cfg['kind']}/{'ckpt' if cfg['ckpt'] else 'scratch'}/{'mra' if cfg['mra'] else 'nomra'}/{cfg['timecol']}/"
            f"{cfg['simconf']}/sleep{cfg['sleep']}")


def label(cfg):
    return {k: cfg[k] for k in sorted(cfg)}


def task(cfg):
    return tunerx.explore(build_factory(cfg), check_factory(cfg), PROP, label(cfg), bound=cfg["k"], max_exec=cfg.get("max_exec"),
                          loop_cap=cfg.get("loop_cap", 400), ctx=ctx_of(cfg),
                          state_of=lambda ex: [(getattr(ex, "n_rows", 0), len(ex.points))])


def configs(tier, seed):
    out = []
    i = 0
    for kind in ("fifo-random", "hb-stopping", "hb-promotion", "shb"):
        for ckpt in (True, False):
            for mra in (True, False):
                if kind in ("fifo-random", "hb-stopping") and not ckpt:
                    continue
                for timecol in TIME_COLUMNS:
                    for simconf in SIMCONF:
                        for sleep in (0.004, 0.1, 5.0):
                            for W in (1, 2):
                                i += 1
                                if tier == "quick" and (i + seed) % 12 != 0:
                                    continue
                                if tier == "thorough" and (i + seed) % 4 != 0:
                                    continue
                                j = len(out)      # (not i: the sub-sampling above is periodic in i)
                                n_seeds = 1 + (j % 2)
                                loop_cap = 400 if sleep >= 0.1 else 3000
                                out.append(dict(kind=kind, ckpt=ckpt, mra=mra, timecol=timecol, simconf=simconf, sleep=sleep, W=W,
                                                n_a=2 + ((j // 2) % 2), n_seeds=n_seeds, R=4 if j % 3 else 3, seed=seed,
                                                bseed=None if j % 4 else 0, stop={"max_num_trials_started": 4},
                                                k=1 if tier == "quick" else 2, loop_cap=loop_cap,
                                                max_exec=60 if tier == "quick" else 600))
    # always present: pause-resume without max_resource_attr where the next report falls inside the stop window
    # (report spacing below delay_stop, or a poll period that lets the report land between decision and stop signal)
    for kind in ("hb-promotion", "shb"):
        for timecol, sleep in (("tiny", 0.004), ("monotone", 0.1)):
            for W in (1, 2):
                for simconf in ("default", "slowstop"):
                    out.append(dict(kind=kind, ckpt=(W == 1), mra=False, timecol=timecol, simconf=simconf, sleep=sleep, W=W,
                                    n_a=2, n_seeds=1, R=4, seed=seed, bseed=0, stop={"max_num_trials_started": 4},
                                    k=1 if tier == "quick" else 2, loop_cap=3000, max_exec=60 if tier == "quick" else 600))
    # start_jobs_without_delay=False: the tuner asks the backend which trials are busy before it starts new ones (one more
    # backend entry point that must not charge the time spent outside a second time)
    for kind in ("fifo-random", "hb-stopping", "hb-promotion"):
        for W in (1, 2):
            out.append(dict(kind=kind, ckpt=True, mra=(W == 2), timecol="monotone", simconf="default", sleep=0.1, W=W,
                            n_a=2, n_seeds=1, R=3, seed=seed, bseed=0, stop={"max_num_trials_started": 3}, nodelay=False,
                            k=1 if tier == "quick" else 2, loop_cap=400, max_exec=60 if tier == "quick" else 600))
    # more workers and longer learning curves: many queued events of several trials while one of them is stopped
    for kind in ("hb-stopping", "hb-promotion", "median"):
        for timecol in ("monotone", "nonmono"):
            for sleep in (0.1, 5.0):
                out.append(dict(kind=kind, ckpt=True, mra=(kind == "hb-promotion"), timecol=timecol, simconf="default", sleep=sleep, W=3,
                                n_a=3, n_seeds=1, R=6, seed=seed, bseed=0, stop={"max_num_trials_started": 6},
                                k=1 if tier == "quick" else 2, loop_cap=1500, max_exec=40 if tier == "quick" else 500))
    return out


def run(tier, seed):
    res = Result()
    cfgs = configs(tier, seed)
    for cov, viols in pmap(task, cfgs):
        res.cov.merge(cov)
        res.violations.extend(viols)
    res.rule = ("Stateless deviation-bounded exploration of the real Tuner.run + UserBlackboxBackend + SimulatorCallback over small "
                "BlackboxTabular tables: real time spent outside the backend is a choice {0, 0.3, 7.0}s at every backend call "
                "(<=k non-zero answers); configuration = scheduler x checkpointing x max_resource_attr x elapsed-time column "
                "(monotone / non-monotone / constant / 0.01 steps) x simulator delays x tuner_sleep_time x workers x seeds. "
                "Oracle: every delivered result of a run equals, in order, what the table prescribes for that configuration, the "
                "trial's single seed and the resume point (values, level sequence, repaired elapsed time, start-of-run + delays + "
                "elapsed time stamp); nothing delivered after a stop/pause decision; clock monotone; each sleep charged once; "
                "results table rows = delivered results. states = distinct (#rows, #choice points).")
    res.bounds = {"configs": len(cfgs), "tier": tier}
    res.assumptions = list(env.ASSUMPTIONS) + [
        "SimulatedTimeKeeper.real_time_since_last_recent_exit (time.time) replaced by an explorer choice",
        "start time of a run is observed (backend clock at _schedule), not recomputed",
        "np.random seeded per execution (per-trial table seed is then identified from the first result of the trial)"]
    return res


def replay(data):
    cfg = dict(data["cfg"])
    ex = tunerx.run_tuner(build_factory(cfg), tunerx.Chooser(data["choices"]), cfg.get("loop_cap", 400))
    out = [Violation(PROP, k, w) for k, w in check_factory(cfg)(ex)]
    tunerx.clean_scratch()
    return out
