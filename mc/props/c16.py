"""C16 — a saved and restored scheduler or searcher continues exactly like the original.

Bounded model checking over crash points: every state of a bounded BFS over event histories of a real scheduler
(plus every prefix of a few long 'spine' histories, which reach promotions / paused trials / exhausted spaces) is a
crash point.  At each crash point the scheduler is restored (i) by a dill round trip and (ii) — for searchers that
implement it — by a pickle round trip of get_state() + clone_from_state on a freshly constructed searcher; original
and restored twin are then driven by EVERY continuation of length <= h (and by long fixed-policy continuations until
the space / trial budget is exhausted) and must produce identical observations at every step.
"""
from collections import deque

from .. import env
from ..core import Result, Coverage, Violation, pmap
from ..schedx import replay as sx_replay
from .. import c16_worlds as worlds
from .. import c16_twin as tw

LEVEL = "model_checking"
PROP = "C16"

SPINE_POLICIES = ["S", "R", "X", "L"]
DRAIN_POLICIES = ["S", "R"]


def build_of(cfg):
    return lambda: worlds.build_world(cfg)


# ---------------------------------------------------------------------------- crash points

def crash_points(ctx, cfg, cov):
    """yield (history, world) : BFS states with digest dedup up to cfg['ms'] states, then spine prefixes"""
    seen = set()
    ms = cfg.get("ms", 100)
    w0 = ctx.build()
    if w0.dead:
        return
    seen.add(w0.digest())
    yield (), w0
    frontier = deque([()])
    n = 1
    capped = False
    while frontier and ms > 0 and not capped:
        hist = frontier.popleft()
        en, last, cut = ctx.node(hist)
        if cut:
            continue
        for ev in en:
            h2 = hist + (ev,)
            w, _ = sx_replay(ctx.build, h2)
            ctx.remember(h2, w)
            if w.dead:
                continue
            o = w.trace[-1]
            if o[0] == "suggest" and o[1] in tw.CUT:
                continue
            d = w.digest()
            if d in seen:
                continue
            seen.add(d)
            n += 1
            frontier.append(h2)
            yield h2, w
            if n >= ms:
                capped = True
                break
    if capped or ms == 0:
        cov.cap("BFS over crash points cut at %d states per configuration; deeper crash points only along spine "
                "histories" % ms if ms else "real-BO family: crash points only along spine histories")
    for pol in cfg.get("spine_policies") or SPINE_POLICIES[:cfg.get("spines", 0)]:
        w = ctx.build()
        evs, _ = tw.drain(w, pol, cfg.get("spine_len", 40))
        for k in range(1, len(evs) + 1):
            h2 = tuple(evs[:k])
            wk, _ = sx_replay(ctx.build, h2)
            ctx.remember(h2, wk)
            if wk.dead:
                break
            o = wk.trace[-1]
            if o[0] == "suggest" and o[1] in tw.CUT:
                break
            d = wk.digest()
            if d in seen:
                continue
            seen.add(d)
            yield h2, wk


# --------------------------------------------------------------------------------- checking

def continuations(ctx, cfg, hist):
    """list of (events, observations of the original, kind)"""
    h = cfg["h"]
    b = len(ctx.node(hist)[0])
    while h > 1 and b ** h > cfg.get("max_paths", 1300):
        h -= 1  # many workers: keep the continuation tree of this crash point within the path budget
    if h < cfg["h"]:
        ctx.cache["__h_reduced__"] = ctx.cache.get("__h_reduced__", 0) + 1
    out = [(p, o, "tree") for p, o in tw.cont_paths(ctx, hist, h)]
    if cfg.get("drain") or cfg.get("long", True):
        have = {p for p, _, _ in out}
        for pol in DRAIN_POLICIES:
            w, _ = sx_replay(ctx.build, hist)
            evs, obs = tw.drain(w, pol, cfg.get("drain_len", 24))
            if evs and evs not in have:
                have.add(evs)
                out.append((evs, obs, "drain"))
    return out


def deeper(ctx, cfg, hist, have):
    out = []
    for p, o in tw.cont_paths(ctx, hist, cfg["h"] + 1):
        if p not in have:
            have.add(p)
            out.append((p, o, "tree+1"))
    for pol in SPINE_POLICIES:
        w, _ = sx_replay(ctx.build, hist)
        evs, obs = tw.drain(w, pol, 60)
        if evs and evs not in have:
            have.add(evs)
            out.append((evs, obs, "drain+"))
    return out


def check_point(ctx, cfg, hist, w, cov, found, only=None):
    """returns list of (key, what, replay-dict)"""
    sr = tw.searcher_of(w.s)
    prep = tw.prepare(w, want_clone=True)
    conts = None
    slabel = tw.sched_label(w.s)
    srname = type(sr).__name__ if sr is not None else "none"
    var = worlds.variant(cfg)
    viols = []

    def report(key, what, cont, twin):
        if key in found:
            return
        found.add(key)
        viols.append((key, what, {"cfg": worlds.label(cfg), "history": [list(e) for e in hist],
                                  "continuation": [list(e) for e in cont], "twin": twin}))

    twins = []
    if prep.blob_err:
        report("dill:%s:%s:dumps-raises:%s@%s" % (slabel, srname, prep.blob_err[0], prep.blob_err[1]),
               "dill.dumps(scheduler) raised %s: %s" % (prep.blob_err[0], prep.blob_err[2]), (), "dill")
        cov.outcome("dill:dumps-raises")
    else:
        twins.append("dill")
    if prep.state_err:
        report("clone:%s:%s:get_state-raises:%s@%s" % (srname, var, prep.state_err[0], prep.state_err[1]),
               "pickle.dumps(searcher.get_state()) raised %s: %s" % (prep.state_err[0], prep.state_err[2]), (), "clone")
        cov.outcome("clone:get_state-raises")
    elif prep.state is not None and not (prep.blob_err and cfg.get("bo")):
        twins.append("clone")
    if not twins:
        return viols
    conts = continuations(ctx, cfg, hist) if only is None else only
    for twin in twins:
        prefix = ("dill:%s:%s" % (slabel, srname)) if twin == "dill" else ("clone:%s:%s" % (srname, var))
        if twin == "dill" and only is None and not cfg.get("bo"):
            # never a verdict by itself: a restored object graph whose canonical digest differs from the original's
            # only widens the set of continuations tried at this crash point
            try:
                t0 = tw.make_dill_twin(ctx, hist, w, prep)
                if tw.canon(t0.s) != tw.canon(w.s):
                    cov.outcome("dill:digest-differs(deepened)")
                    conts = conts + deeper(ctx, cfg, hist, {p for p, _, _ in conts})
            except tw.TwinError:
                pass
        for evs, obs, kind in conts:
            res = _one(ctx, cfg, hist, w, prep, twin, (), evs, obs, cov)
            if res is None:
                cov.outcome(twin + ":identical")
                if len(hist) >= 4 and len(cov.samples) < 3 and len(evs) >= 3 and twin not in [x.get("twin") for x in cov.samples]:
                    cov.sample({"cfg": _short(cfg), "twin": twin, "crash_point": [list(e) for e in hist],
                                "continuation": [list(e) for e in evs],
                                "observations_both": [list(map(str, o)) for o in obs][:6]})
                continue
            clause, what, fatal, tags = res
            suffix = ""
            if twin == "clone" and not fatal:
                ok, rest = _classify(ctx, cfg, hist, w, prep, evs, obs, cov, sr)
                if ok is not None:
                    suffix = ":unless(%s)" % "+".join(ok)
                elif rest is not None and rest[0] != clause:
                    # a different divergence remains even with every harness-side repair applied
                    report(prefix + ":" + rest[0], "%s twin (all harness-side repairs applied) of %s/%s after %d events: %s"
                           % (twin, slabel, srname, len(hist), rest[1]), evs, twin)
            cov.outcome(twin + ":" + clause.split(":")[0] + (suffix and ":explained"))
            msg = "%s twin of %s/%s after %d events: %s" % (twin, slabel, srname, len(hist), what)
            if suffix:
                # each harness-side repair needed to remove the divergence identifies one restore defect; the first
                # differing observation goes into the text
                for a in ok:
                    report("%s:diverges-unless(%s)" % (prefix, a), msg + " [identical again with harness-side repair "
                           "%s]" % "+".join(ok), evs, twin)
                    for tag in tags:
                        report("%s:%s:unless(%s)" % (prefix, tag, a), msg, evs, twin)
            elif fatal and twin == "clone":
                # the clone cannot even be built: the searcher class and the raise site are the minimal pattern
                report("clone:%s:%s" % (srname, clause), msg + " [searcher options: %s]" % var, evs, twin)
            else:
                report(prefix + ":" + clause, msg, evs, twin)
                for tag in tags:
                    report(prefix + ":" + tag, msg, evs, twin)
            if fatal:
                break  # the twin cannot even be built at this crash point
    return viols


def _classify(ctx, cfg, hist, w, prep, evs, obs, cov, sr):
    """which harness-side repair(s) make the diverging continuation identical again?
    returns (tuple of assists | None, result with all assists)"""
    app = tw.applicable_assists(sr)
    memo = ctx.cache.setdefault("__assist_memo__", [])
    # minimal explanation first: single repairs (most recently successful first), then remembered combinations,
    # then all of them together followed by greedy minimisation
    def ok(assists):
        return _one(ctx, cfg, hist, w, prep, "clone", assists, evs, obs, cov)

    def hit(assists):
        if assists in memo:
            memo.remove(assists)
        memo.insert(0, assists)
        return assists, None

    singles = [m for m in memo if len(m) == 1 and m[0] in app]
    singles += [(a,) for a in app if (a,) not in singles]
    rest = None
    for assists in singles + [m for m in memo if len(m) > 1 and set(m) <= set(app)]:
        rest = ok(assists)
        if rest is None:
            return hit(assists)
    if len(app) < 2:
        return None, rest
    rest = ok(tuple(app))
    if rest is not None:
        return None, rest
    cur = list(app)
    for a in list(app):
        trial = tuple(x for x in cur if x != a)
        if len(trial) >= 2 and ok(trial) is None:
            cur = list(trial)
    return hit(tuple(cur))


def _one(ctx, cfg, hist, w, prep, twin, assists, evs, obs, cov):
    """None if identical, else (clause, what, fatal, tags)"""
    try:
        if twin == "dill":
            t = tw.make_dill_twin(ctx, hist, w, prep)
        else:
            t = tw.make_clone_twin(ctx, hist, w, prep, assists)
    except tw.TwinError as e:
        return e.clause, e.what, True, []
    n, bad = tw.run_twin(t, evs, obs)
    cov.add("transitions", n)
    cov.add("traces_validated_against_impl")
    if bad is None:
        return None
    clause, what, i = bad
    note, tags = tw.repeat_skip_note(w.trace, obs, t)
    if cfg.get("allow_dup"):
        tags = []  # repeats are legal there; the text still carries the note
    if note:
        what += " — " + note
    return clause, what, False, tags


def task(cfg):
    import time
    t0 = time.process_time()
    cov = Coverage()
    ctx = tw.Ctx(cfg, build_of(cfg))
    found = set()
    viols = []
    npts = 0
    for hist, w in crash_points(ctx, cfg, cov):
        if cov.c.get("traces_validated_against_impl", 0) > cfg.get("max_twins", 10 ** 9):
            cov.cap("twin-continuation budget of %d per configuration reached (many workers): remaining crash points "
                    "of that configuration not checked" % cfg["max_twins"])
            break
        npts += 1
        cov.add("states")
        st = set(w.status.values())
        if not hist:
            cov.outcome("crashpoint:before-first-suggest")
        if "paused" in st:
            cov.outcome("crashpoint:with-paused-trial")
        if "run" in st:
            cov.outcome("crashpoint:with-pending-trial")
        for key, what, rp in check_point(ctx, cfg, hist, w, cov, found):
            viols.append(Violation(PROP, key, what, rp))
        cov.extra["max_crash_depth"] = max(cov.extra.get("max_crash_depth", 0), len(hist))
    cov.extra["suggestions_equal_only_up_to_1e-7"] = tw.NEAR[0]
    tw.NEAR[0] = 0
    cov.extra["max_accepted_relative_deviation"] = tw.MAXDEV[0]
    tw.MAXDEV[0] = 0.0
    if ctx.cache.get("__h_reduced__"):
        cov.extra["crash_points_with_reduced_h"] = ctx.cache["__h_reduced__"]
        cov.cap("continuation depth reduced by one or more at crash points whose branching b gives b^h > %d paths"
                % cfg.get("max_paths", 1300))
    cpu = time.process_time() - t0
    cov.extra["max_task_cpu_s"] = round(cpu, 1)
    cov.extra["cpu_s_total"] = round(cpu, 1)
    return cov, viols


def _short(cfg):
    c = {k: v for k, v in cfg.items() if k not in ("inner", "perms")}
    if "inner" in cfg:
        c["inner"] = {k: cfg["inner"][k] for k in ("type", "sys", "rs", "brackets", "mode") if k in cfg["inner"]}
    return c


def run(tier, seed):
    res = Result()
    cfgs = worlds.configs(tier, seed)
    # expensive (real BO) tasks first so that the pool is balanced
    order = sorted(range(len(cfgs)), key=lambda i: (0 if cfgs[i].get("bo") else 1, -cfgs[i].get("ms", 0)))
    outs = pmap(task, [cfgs[i] for i in order])
    for cov, viols in outs:
        res.cov.merge(cov)
        res.violations.extend(viols)
    h = 3 if tier == "quick" else 4
    res.cov.cap("continuations: every event sequence of length <= %d (2 for the real-BO family) plus two fixed-policy "
                "continuations of length <= 24 per crash point" % h)
    res.violations.sort(key=lambda v: (v.key, len(v.replay.get("history", [])), len(v.replay.get("continuation", []))))
    res.rule = ("crash points = every state of a digest-deduplicated BFS over event histories {suggest(bracket), "
                "report(t), complete(t), fail(t)} of a real scheduler (cap per configuration) plus every prefix of 2-4 "
                "fixed-policy spine histories; at each crash point: dill round trip of the scheduler, and pickle round "
                "trip of searcher.get_state() + clone_from_state on a freshly constructed searcher; original and "
                "restored twin are driven by every continuation of length <= h and by two fixed-policy continuations "
                "until trial budget / configuration space are exhausted; oracle = identical observation (suggestion "
                "incl. configuration, decision, exception) at every step. states = crash points, transitions = twin "
                "continuation steps compared.")
    res.bounds = {"configs": len(cfgs), "tier": tier, "h": 3 if tier == "quick" else 4,
                  "families": sorted({c["fam"] + ":" + str(c.get("searcher", c.get("kind", "random"))) for c in cfgs})}
    res.assumptions = list(env.ASSUMPTIONS) + [
        "only the scheduler is dill-pickled (Tuner.save pickles the whole Tuner; backend and callbacks are out of scope)",
        "driver state of the restored world is a copy of the original driver state; bracket one-hot distribution and "
        "constant time keeper are attributes of the scheduler and are required to survive dill",
        "clone_from_state is called on the searcher of a freshly constructed scheduler (same constructor arguments), "
        "configured like the original; the clone replaces the searcher of a scheduler brought to the crash point by "
        "replay (dill for the real-BO family)",
        "float hyperparameters of suggestions are compared with relative tolerance 1e-7 (GP get_params/set_params is exact "
        "only up to an ulp; counted in suggestions_equal_only_up_to_1e-7), everything else exactly",
        "debug_log=True variants of the C03-C05 worlds set searcher._debug_log = DebugLogPrinter() after construction",
    ]
    return res


def replay(data):
    """re-run one recorded (history, continuation) for the recorded kind of twin"""
    cfg = data["cfg"]
    hist = tuple(tuple(e) for e in data["history"])
    cont = tuple(tuple(e) for e in data.get("continuation", []))
    ctx = tw.Ctx(cfg, build_of(cfg))
    w, _ = sx_replay(ctx.build, hist)
    only = None
    if cont:
        wo, _ = sx_replay(ctx.build, hist + cont)
        only = [(cont, tuple(wo.trace[len(hist):]), "replay")]
    out = []
    for key, what, rp in check_point(ctx, cfg, hist, w, Coverage(), set(), only=only):
        if data.get("twin") is None or rp["twin"] == data["twin"]:
            out.append(Violation(PROP, key, what, rp))
    return out
