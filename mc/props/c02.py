"""C02 — every reported result is delivered exactly once, in order, never after stop/pause (generic backend logic)."""
import itertools

from .. import env
from ..core import Result, pmap, Violation
from .. import tunerx, scheds, monitors
from ..backends import ScriptedBackend, ScriptSpec, make_scripted_local_backend
from ..dscript import DecisionScriptScheduler
from .c01 import table

LEVEL = "model_checking"
PROP = "C02"


def build_factory(cfg):
    def build(chooser, log):
        from syne_tune import Tuner, StoppingCriterion
        from syne_tune.results_callback import StoreResultsCallback
        R = cfg["R"]
        if cfg["kind"] == "dscript":
            sched = DecisionScriptScheduler(cfg["word"], resume=cfg.get("resume", True), max_trials=cfg["stop"].get("max_num_trials_started", 3))
            info = dict(mra=None, metrics=None)
        else:
            sched, info = scheds.make(cfg["kind"], mode=cfg["mode"], seed=cfg["seed"], R=R, mra=cfg.get("mra", True))
        tunerx.wrap_scheduler(sched, log)
        sign = 1.0 if cfg.get("mode", "min") == "min" else -1.0
        R_job = R + 2 if cfg["kind"] == "pbt" else R
        spec = ScriptSpec(table(8, R_job, sign), R_job, max_resource_attr=info["mra"], checkpointing=cfg.get("ckpt", True))
        make = make_scripted_local_backend if cfg.get("files") else ScriptedBackend
        backend = make(chooser, spec, cfg["W"], profile=cfg["profile"], fault_budget=cfg.get("F", 0),
                       faults=("crash",), log=log, late_results=cfg.get("late", True),
                       **({"midpoll": True} if cfg.get("files") else {}))
        rec = tunerx.make_recorder_callback(log, loop_cap=cfg.get("loop_cap", 150))
        store = StoreResultsCallback()
        tuner = Tuner(trial_backend=backend, scheduler=sched, stop_criterion=StoppingCriterion(**cfg["stop"]),
                      n_workers=cfg["W"], sleep_time=0, callbacks=[rec, store], save_tuner=False, suffix_tuner_name=False,
                      tuner_name="verif-c02", max_failures=5, wait_trial_completion_when_stopping=cfg.get("wait", False))
        return dict(tuner=tuner, backend=backend, scheduler=sched, store=store)
    return build


def ctx_of(cfg):
    if cfg["kind"] == "dscript":
        return "dscript" + ("/files" if cfg.get("files") else "")
    return f"{cfg['kind']}/{'ckpt' if cfg.get('ckpt', True) else 'scratch'}/{'mra' if cfg.get('mra', True) else 'nomra'}" + ("/files" if cfg.get("files") else "")


def label(cfg):
    d = {k: cfg[k] for k in sorted(cfg) if k != "profile"}
    d["profile"] = tunerx.profile_name(cfg["profile"])
    return d


def check(ex):
    vs = monitors.delivery(ex, store_cb=ex.extra.get("store"))
    if any(k.startswith("delivery:late-result-delivered") for k, _ in vs):
        # everything after a stale delivery in this execution (scheduler assertions about skipped / repeated levels,
        # duplicates of the level) is downstream of it: report the root cause only
        return [(k, w) for k, w in vs if k.startswith("delivery:late-result-delivered")]
    if ex.exc is not None and ex.exc[0] not in ("LoopCap",) and not (ex.exc[0] == "ValueError" and "no metrics got observed" in ex.exc[2]):
        vs.append((f"exc:{ex.exc[0]}@{ex.exc[1]}", f"{ex.exc[0]} escaped Tuner.run at {ex.exc[1]}: {ex.exc[2]}"))
    return vs


# ------------------------------------------------------------------ the backend API driven directly (no tuning loop)

def api_world(ops):
    """replay a sequence of TrialBackend calls on a fresh ScriptedBackend (default environment answers: every live job
    reports one more level per poll and exits when its script is done); returns (backend, delivered, statuses)"""
    log = []
    spec = ScriptSpec(table(4, 4, 1.0), 4, max_resource_attr=None, checkpointing=True)
    be = ScriptedBackend(tunerx.Chooser([]), spec, 2, profile=dict(burst=False, rr=False, lag=False), log=log, late_results=False)
    delivered = {}
    for op in ops:
        if op[0] == "start":
            be.start_trial(config={"a": 0.5})
        elif op[0] == "poll":
            _st, res = be.fetch_status_results(list(op[1]))
            for t, r in res:
                delivered.setdefault(t, []).append((r["st_worker_timestamp"], r[spec.resource_attr]))
        elif op[0] == "pause":
            be.pause_trial(op[1])
        elif op[0] == "resume":
            be.resume_trial(op[1])
        elif op[0] == "stop":
            be.stop_trial(op[1])
    return be, delivered


def api_enabled(be, n_started, T):
    from ..backends import ALIVE
    from syne_tune.backend.trial_status import Status
    ops = []
    alive = sorted(t for t, p in be.proc.items() if p == ALIVE)
    paused = sorted(t for t, s_ in be.shown.items() if s_ == Status.paused)
    if n_started < T and len(alive) < 2:
        ops.append(("start",))
    if alive or paused:
        # a poll asks about every live trial and about any subset of the paused ones (a paused trial may be polled)
        import itertools as it
        for k in range(len(paused) + 1):
            for sub in it.combinations(paused, k):
                ops.append(("poll", tuple(sorted(alive + list(sub)))))
    for t in alive:
        ops.append(("pause", t))
        ops.append(("stop", t))
    for t in paused:
        if len(alive) < 2:
            ops.append(("resume", t))
    return ops


def api_violations(be, delivered):
    """every report a job wrote (nothing is written after a pause/stop here) is delivered exactly once, in order, by the
    first poll that asks about the trial after it was written"""
    v = []
    for t, lst in be.metrics.items():
        want = [(m["st_worker_timestamp"], m[be.spec.resource_attr]) for m in lst]
        got = delivered.get(t, [])
        if got != want[:len(got)]:
            v.append(("api:delivered-not-a-prefix-of-reported", f"trial {t}: delivered (stamp, level) {got}, reported {want}"))
        elif getattr(be, "_polled_since_emit", {}).get(t) and len(got) < len(want):
            pass
    return v


def task_api(cfg):
    import collections
    from ..core import Coverage
    cov, viols = Coverage(), []
    T, D = cfg["T"], cfg["D"]
    seen, frontier = set(), collections.deque([()])
    while frontier:
        hist = frontier.popleft()
        be, delivered = api_world(hist)
        cov.add("states")
        # judged right after a poll of ALL live and paused trials: nothing reported may still be undelivered
        for key, what in api_violations(be, delivered):
            viols.append(Violation(PROP, "api|" + key, what + f" after {list(hist)}", {"engine": "api", "ops": [list(o) for o in hist]}))
        if hist and hist[-1][0] == "poll":
            from syne_tune.backend.trial_status import Status
            asked = set(hist[-1][1])
            for t in asked:
                n_rep, n_del = len(be.metrics.get(t, [])), len(delivered.get(t, []))
                if be.shown.get(t) not in (Status.paused, Status.stopped) and n_del < n_rep:
                    viols.append(Violation(PROP, "api|api:report-not-delivered-by-the-poll-that-asks",
                                           f"trial {t}: {n_rep} reports written, {n_del} delivered after {list(hist)}",
                                           {"engine": "api", "ops": [list(o) for o in hist]}))
        if viols or len(hist) >= D:
            if viols:
                break
            continue
        n_started = sum(1 for o in hist if o[0] == "start")
        for op in api_enabled(be, n_started, T):
            h2 = hist + (op,)
            b2, d2 = api_world(h2)
            cov.add("transitions")
            dig = repr((sorted(b2.proc.items()), sorted((t, str(s_)) for t, s_ in b2.shown.items()), sorted((t, len(m)) for t, m in b2.metrics.items()),
                        sorted((t, len(x)) for t, x in d2.items()), sorted(b2._last_metric_seen_index.items()), sorted(b2.run_idx.items())))
            if dig not in seen:
                seen.add(dig)
                frontier.append(h2)
    tunerx.clean_scratch()
    cov.add("distinct_nontrivial", len(seen))
    return cov, viols[:3]


def task(cfg):
    if cfg.get("api"):
        return task_api(cfg)
    return tunerx.explore(build_factory(cfg), check, PROP, label(cfg), bound=cfg["k"], max_exec=cfg.get("max_exec"),
                          loop_cap=cfg.get("loop_cap", 150), ctx=ctx_of(cfg),
                          state_of=lambda ex: [tuple(sorted((t, len(m)) for t, m in ex.backend.metrics.items())) + (getattr(ex, "n_delivered", 0),)])


def words(maxlen):
    out = []
    for n in range(1, maxlen + 1):
        for w in itertools.product("CPS", repeat=n):
            if any(c != "C" for c in w):
                out.append("".join(w))
    return out


def configs(tier, seed):
    out = []
    profiles = tunerx.PROFILES
    # (1) decision-script scheduler: every decision word
    ws = words(3 if tier == "quick" else 4)
    for wi, word in enumerate(ws):
        for resume in (True, False):
            for pi, prof in enumerate(profiles):
                if tier == "quick" and (pi + wi + seed) % 8 != 0:
                    continue
                if tier == "thorough" and (pi + wi + seed) % 2 != 0:
                    continue
                out.append(dict(kind="dscript", word=word, resume=resume, W=2, R=3, profile=prof, k=1 if tier == "quick" else 2,
                                stop={"max_num_trials_started": 3}, wait=True, seed=seed, max_exec=300 if tier == "quick" else 3000))
    # (2) shipped schedulers that stop / pause+resume
    for ki, kind in enumerate(["hb-stopping", "hb-promotion", "shb", "pbt", "hb-pasha", "dehb", "median", "fifo-random"]):
        for ckpt in (True, False):
            for mra in (True, False):
                if not scheds.is_pause_resume(kind) and (not ckpt or not mra):
                    continue
                if kind in ("pbt",) and not mra:
                    continue
                for pi, prof in enumerate(profiles):
                    if tier == "quick" and (pi + ki + seed) % 4 != 0:
                        continue
                    out.append(dict(kind=kind, W=2, R=4, mode="min" if pi % 2 else "max", seed=seed, profile=prof, ckpt=ckpt, mra=mra,
                                    k=1 if tier == "quick" else 2, stop={"max_num_trials_started": 4}, wait=(pi % 2 == 0), F=pi % 2,
                                    max_exec=300 if tier == "quick" else 4000))
    # (3) the same through the real file layer of LocalBackend (std.out + retrieve, marker files, shutil checkpoints)
    n = len(out)
    for i in range(0, n, 7 if tier == "quick" else 3):
        out.append(dict(out[i], files=True, max_exec=120 if tier == "quick" else 1500))
    return out


def run(tier, seed):
    res = Result()
    cfgs = configs(tier, seed) + [dict(api=True, T=2, D=7 if tier == "quick" else 9)]
    for cov, viols in pmap(task, cfgs):
        res.cov.merge(cov)
        res.violations.extend(viols)
    res.rule = ("Stateless deviation-bounded exploration of the real Tuner.run over ScriptedBackend (real fetch_status_results): every "
                "batching of worker output per poll (0/1/2/all new results per trial), completion lag, output written between a "
                "pause/stop decision and the kill, merge order, for (1) a harness scheduler replaying every decision word over "
                "{CONTINUE,PAUSE,STOP} up to the length bound with/without resume and (2) the shipped stopping / pause-resume "
                "schedulers with/without checkpointing and max_resource_attr; oracle = ground-truth emission list per run vs "
                "on_trial_result calls and StoreResultsCallback rows. states = distinct (reported-count vector, delivered count).")
    res.bounds = {"configs": len(cfgs), "tier": tier}
    res.assumptions = list(env.ASSUMPTIONS) + [
        "generic polling logic exercised through ScriptedBackend (append-only output per trial as LocalBackend's std.out); "
        "the simulator backend is covered by the C10 check's delivery clauses"]
    return res


def replay(data):
    if data.get("engine") == "api":
        ops = [tuple(tuple(x) if isinstance(x, list) else x for x in o) for o in data["ops"]]
        out = []
        for n in range(1, len(ops) + 1):
            hist = tuple(ops[:n])
            be, delivered = api_world(hist)
            out += [Violation(PROP, "api|" + k, w) for k, w in api_violations(be, delivered)]
            if hist[-1][0] == "poll":
                from syne_tune.backend.trial_status import Status
                for t in hist[-1][1]:
                    n_rep, n_del = len(be.metrics.get(t, [])), len(delivered.get(t, []))
                    if be.shown.get(t) not in (Status.paused, Status.stopped) and n_del < n_rep:
                        out.append(Violation(PROP, "api|api:report-not-delivered-by-the-poll-that-asks",
                                             f"trial {t}: {n_rep} reports written, {n_del} delivered after {list(hist)}"))
        tunerx.clean_scratch()
        return out[:1]
    cfg = dict(data["cfg"])
    prof = cfg["profile"]
    if isinstance(prof, str):
        b, r, l = prof.split("/")
        cfg["profile"] = dict(burst=b == "burst", rr=r == "rr", lag=l == "lag")
    ex = tunerx.run_tuner(build_factory(cfg), tunerx.Chooser(data["choices"]), cfg.get("loop_cap", 150))
    tunerx.clean_scratch()
    return [Violation(PROP, k, w) for k, w in check(ex)]
