"""C12 — tuning terminates on the stopping criterion and leaves nothing running."""
from .. import env
from ..core import Result, pmap, Violation
from .. import tunerx, scheds, monitors
from ..backends import ScriptedBackend, ScriptSpec
from .c01 import table

LEVEL = "model_checking"
PROP = "C12"


class LogicalClock:
    """stands in for the `time` module inside syne_tune.tuning_status (perf_counter only)"""
    t = 0.0

    @classmethod
    def perf_counter(cls):
        return cls.t


class Injected(RuntimeError):
    pass


def snapshot(tuner):
    ts = tuner.tuning_status
    oms = ts.overall_metric_statistics
    return dict(started=ts.num_trials_started, completed=ts.num_trials_completed, failed=ts.num_trials_failed,
                finished=ts.num_trials_finished, evals=oms.count, wallclock=ts.wallclock_time, cost=ts.cost,
                min=dict(oms.min_metrics), max=dict(oms.max_metrics), running=ts.num_trials_running)


def build_factory(cfg):
    def build(chooser, log):
        import syne_tune.tuning_status as tsmod
        from syne_tune import Tuner, StoppingCriterion
        from syne_tune.results_callback import StoreResultsCallback
        from syne_tune.constants import ST_WORKER_COST
        LogicalClock.t = 0.0
        tsmod.time = LogicalClock
        R = cfg["R"]
        space = None
        if cfg.get("grid_size"):
            from syne_tune.config_space import choice
            space = {"a": choice([round(0.1 + 0.15 * i, 2) for i in range(cfg["grid_size"])])}
        sched, info = scheds.make(cfg["kind"], mode=cfg["mode"], seed=cfg["seed"], R=R, mra=cfg.get("mra", True), space=space)
        inj = cfg.get("inject")
        if inj:
            meth, j = inj
            orig = getattr(sched, meth)
            cnt = [0]

            def raising(*a, **kw):
                cnt[0] += 1
                if cnt[0] == j:
                    log.append(("injected", meth, j))
                    raise Injected(f"injected at {meth} call {j}")
                return orig(*a, **kw)
            setattr(sched, meth, raising)
        tunerx.wrap_scheduler(sched, log)
        sign = 1.0 if cfg["mode"] == "min" else -1.0
        R_job = R + 2 if cfg["kind"] == "pbt" else R
        extra = lambda t, level, run: {ST_WORKER_COST: 0.5 * level}
        tab = table(8, R_job, sign)
        if cfg.get("nan_first"):
            tab[0][0] = float("nan")   # the very first value of the experiment is NaN (a diverged first epoch)
        spec = ScriptSpec(tab, R_job, max_resource_attr=info["mra"], checkpointing=True, extra=extra)
        backend = ScriptedBackend(chooser, spec, cfg["W"], profile=cfg["profile"], fault_budget=cfg.get("F", 0),
                                  faults=("crash",), log=log, late_results=False)
        rec = tunerx.make_recorder_callback(log, loop_cap=cfg.get("loop_cap", 60), extra=snapshot)
        orig_loop_start = rec.on_loop_start

        def tick():
            orig_loop_start()          # (logs the status as the previous iteration left it, old clock)
            LogicalClock.t += 1.0
        rec.on_loop_start = tick
        store = StoreResultsCallback()
        tuner = Tuner(trial_backend=backend, scheduler=sched, stop_criterion=StoppingCriterion(**cfg["stop"]),
                      n_workers=cfg["W"], sleep_time=0, callbacks=[rec, store], save_tuner=False, suffix_tuner_name=False,
                      tuner_name="verif-c12", max_failures=cfg.get("max_failures", 5),
                      asynchronous_scheduling=cfg.get("async", True),
                      wait_trial_completion_when_stopping=cfg.get("wait", False))
        return dict(tuner=tuner, backend=backend, scheduler=sched, store=store)
    return build


def ctx_of(cfg):
    crit = "+".join(sorted(cfg["stop"]))
    return (f"{cfg['kind']}/W{cfg['W']}/{crit}/{'wait' if cfg.get('wait') else 'nowait'}" + ("/inject" if cfg.get("inject") else "")
            + ("/nan-first" if cfg.get("nan_first") else ""))


def label(cfg):
    d = {k: cfg[k] for k in sorted(cfg) if k != "profile"}
    d["profile"] = tunerx.profile_name(cfg["profile"])
    return d


def task(cfg):
    return tunerx.explore(build_factory(cfg), lambda ex: monitors.termination(ex, cfg), PROP, label(cfg), bound=cfg["k"],
                          max_exec=cfg.get("max_exec"), loop_cap=cfg.get("loop_cap", 60), ctx=ctx_of(cfg),
                          state_of=lambda ex: [(getattr(ex, "first_hold", None), sum(1 for e in ex.log if e[0] == "schedule"),
                                                ex.exc[0] if ex.exc else None)])


CRITERIA = [
    {"max_num_trials_started": 3}, {"max_num_trials_started": 0}, {"max_num_evaluations": 5}, {"max_num_evaluations": 0},
    {"max_num_trials_completed": 1}, {"max_num_trials_finished": 2}, {"max_wallclock_time": 3.5}, {"max_wallclock_time": 0.5},
    {"max_cost": 3.0}, {"min_metric_value": {"m": 1.0}}, {"max_metric_value": {"m": 4.0}},
    {"max_num_trials_started": 4, "max_num_evaluations": 6}, {"max_wallclock_time": 6.5, "max_num_trials_finished": 1},
    {"max_num_trials_started": 40},
]


def configs(tier, seed):
    out = []
    kinds = ["fifo-random", "hb-stopping", "hb-promotion", "shb", "pbt", "fifo-grid"]
    for ki, kind in enumerate(kinds):
        for ci, stop in enumerate(CRITERIA):
            if "max_num_trials_started" in stop and stop["max_num_trials_started"] == 40 and kind != "fifo-grid":
                continue  # effectively unbounded: only meaningful with a finite search space
            if "max_num_trials_completed" in stop and kind in ("shb", "pbt", "hb-promotion", "hb-stopping"):
                continue  # these schedulers (almost) never let a trial complete by itself: criterion would never hold
            if "max_num_trials_finished" in stop and len(stop) == 1 and kind in ("shb",):
                continue
            for W in (1, 2, 3):
                if tier == "quick" and (W + ci + ki) % 3 != 0:
                    continue
                for wait in (False, True):
                    for pi, prof in enumerate(tunerx.PROFILES):
                        if (pi + ci + ki + W + seed) % (8 if tier == "quick" else 3) != 0:
                            continue
                        mode = "min"
                        cfg = dict(kind=kind, W=W, R=3, mode=mode, seed=seed, profile=prof, stop=stop, wait=wait,
                                   k=1 if tier == "quick" else 2, F=1 if pi % 2 else 0, max_failures=pi % 2 * (ci % 2),
                                   max_exec=150 if tier == "quick" else 1200)
                        cfg["mra"] = (pi + ci) % 3 != 0
                        cfg["async"] = not (W == 2 and (pi + ci) % 4 == 1)
                        out.append(cfg)
    # metric thresholds when the very first value handed to the loop is NaN
    for kind in ("fifo-random", "hb-stopping"):
        for stop in ({"min_metric_value": {"m": 1.0}}, {"max_metric_value": {"m": 4.0}}):
            for W in (1, 2):
                for prof in (tunerx.PROFILES[0], tunerx.PROFILES[3]):
                    out.append(dict(kind=kind, W=W, R=3, mode="min", seed=seed, profile=prof, stop=stop, wait=False,
                                    k=1 if tier == "quick" else 2, F=0, max_failures=0, nan_first=True,
                                    max_exec=100 if tier == "quick" else 1000))
    # finite search space whose size is not a multiple of n_workers: exhaustion in the middle of a batch of free workers
    for W in (2, 3):
        for gs in (3, 5):
            for prof in tunerx.PROFILES:
                if not prof["burst"] and tier == "quick":
                    continue
                out.append(dict(kind="fifo-grid", W=W, R=2, mode="min", seed=seed, profile=prof, stop={"max_num_trials_started": 40},
                                wait=False, k=1 if tier == "quick" else 2, F=0, max_failures=0, grid_size=gs,
                                max_exec=150 if tier == "quick" else 2000, **{"async": True}))
    # search space exhausted while a trial is still running, and the criterion becomes true during that wait
    for W in (2, 3):
        for crit in ({"max_num_evaluations": 9}, {"max_wallclock_time": 7.5}, {"max_cost": 4.0}):
            for prof in tunerx.PROFILES:
                if prof["burst"] or (tier == "quick" and prof["rr"]):
                    continue
                out.append(dict(kind="fifo-grid", W=W, R=4, mode="min", seed=seed, profile=prof, stop=crit, wait=False,
                                k=1 if tier == "quick" else 2, F=0, max_failures=0, grid_size=W + 1,
                                max_exec=120 if tier == "quick" else 1500, **{"async": True}))
    # injected scheduler exceptions at every call index up to the horizon
    for kind in ("fifo-random", "hb-promotion"):
        for meth, horizon in (("on_trial_result", 6 if tier == "quick" else 10), ("suggest", 4 if tier == "quick" else 6),
                              ("on_trial_complete", 2), ("on_trial_add", 3)):
            for j in range(1, horizon + 1):
                out.append(dict(kind=kind, W=2, R=3, mode="min", seed=seed, profile=tunerx.PROFILES[(j + seed) % 8],
                                stop={"max_num_trials_started": 3}, wait=(j % 2 == 0), k=0 if tier == "quick" else 1,
                                inject=(meth, j), expect_exc="Injected", max_exec=100 if tier == "quick" else 1000))
    return out


def run(tier, seed):
    res = Result()
    cfgs = configs(tier, seed)
    for cov, viols in pmap(task, cfgs):
        res.cov.merge(cov)
        res.violations.extend(viols)
    res.rule = ("Stateless deviation-bounded exploration of the real Tuner.run over ScriptedBackend for every StoppingCriterion field "
                "(thresholds flipping at the first / a middle iteration / never) and pairs x scheduler x n_workers x "
                "wait_trial_completion x (a)synchronous scheduling x failures vs max_failures x scheduler exceptions injected at "
                "every call index; wall-clock owned by a logical clock ticking once per loop iteration. Oracle: independent reading "
                "of the criterion on the status snapshot at each loop end; nothing started after the first iteration at whose end "
                "it held; exit (or drain, in wait mode) right then; after run(): no job alive, stop_all + on_tuning_end once, results "
                "stored, status counters and per-trial final status equal ground truth. states = distinct (first-hold iteration, "
                "#starts, exception).")
    res.bounds = {"configs": len(cfgs), "tier": tier}
    res.assumptions = list(env.ASSUMPTIONS) + ["syne_tune.tuning_status.time replaced by a logical clock (perf_counter only)",
                                               "'left running' judged on scripted workers (as the property states, not on the simulator)"]
    return res


def replay(data):
    cfg = dict(data["cfg"])
    prof = cfg["profile"]
    if isinstance(prof, str):
        b, r, l = prof.split("/")
        cfg["profile"] = dict(burst=b == "burst", rr=r == "rr", lag=l == "lag")
    if cfg.get("inject"):
        cfg["inject"] = tuple(cfg["inject"])
    ex = tunerx.run_tuner(build_factory(cfg), tunerx.Chooser(data["choices"]), cfg.get("loop_cap", 120))
    out = [Violation(PROP, k, w) for k, w in monitors.termination(ex, cfg)]
    tunerx.clean_scratch()
    return out
