"""C12 — tuning terminates on the stopping criterion and leaves nothing running."""
from .. import env
from ..core import Result, pmap, Violation
from .. import tunerx, scheds, monitors
from ..backends import ScriptedBackend, ScriptSpec
from .c01 import table

LEVEL = "model_checking"
PROP = "C12"


class LogicalClock:
    """stands in for the `time` module inside syne_tune.tuning_status (perf_counter only)"""
    t = 0.0

    @classmethod
    def perf_counter(cls):
        return cls.t


class Injected(RuntimeError):
    pass


def snapshot(tuner):
    ts = tuner.tuning_status
    oms = ts.overall_metric_statistics
    return dict(started=ts.num_trials_started, completed=ts.num_trials_completed, failed=ts.num_trials_failed,
                finished=ts.num_trials_finished, evals=oms.count, wallclock=ts.wallclock_time, cost=ts.cost,
                min=dict(oms.min_metrics), max=dict(oms.max_metrics), running=ts.num_trials_running)


def build_factory(cfg):
    def build(chooser, log):
        import syne_tune.tuning_status as tsmod
        from syne_tune import Tuner, StoppingCriterion
        from syne_tune.results_callback import StoreResultsCallback
        from syne_tune.constants import ST_WORKER_COST
        LogicalClock.t = 0.0
        tsmod.time = LogicalClock
        R = cfg["R"]
        space = None
        if cfg.get("grid_size"):
            from syne_tune.config_space import choice
            space = {"a": choice([round(0.1 + 0.15 * i, 2) for i in range(cfg["grid_size"])])}
        sched, info = scheds.make(cfg["kind"], mode=cfg["mode"], seed=cfg["seed"], R=R, mra=cfg.get("mra", True), space=space)
        inj = cfg.get("inject")
        if inj:
            meth, j = inj
            orig = getattr(sched, meth)
            cnt = [0]

            def raising(*a, **kw):
                cnt[0] += 1
                if cnt[0] == j:
                    log.append(("injected", meth, j))
                    raise Injected(f"injected at {meth} call {j}")
                return orig(*a, **kw)
            setattr(sched, meth, raising)
        tunerx.wrap_scheduler(sched, log)
        sign = 1.0 if cfg["mode"] == "min" else -1.0
        R_job = R + 2 if cfg["kind"] == "pbt" else R
        extra = lambda t, level, run: {ST_WORKER_COST: 0.5 * level}
        tab = table(8, R_job, sign)
        if cfg.get("nan_first"):
            tab[0][0] = float("nan")   # the very first value of the experiment is NaN (a diverged first epoch)
        spec = ScriptSpec(tab, R_job, max_resource_attr=info["mra"], checkpointing=True, extra=extra)
        backend = ScriptedBackend(chooser, spec, cfg["W"], profile=cfg["profile"], fault_budget=cfg.get("F", 0),
                                  faults=("crash",), log=log, late_results=False)
        rec = tunerx.make_recorder_callback(log, loop_cap=cfg.get("loop_cap", 60), extra=snapshot)
        orig_loop_start = rec.on_loop_start

        def tick():
            orig_loop_start()          # (logs the status as the previous iteration left it, old clock)
            LogicalClock.t += 1.0
        rec.on_loop_start = tick
        store = StoreResultsCallback()
        tuner = Tuner(trial_backend=backend, scheduler=sched, stop_criterion=StoppingCriterion(**cfg["stop"]),
                      n_workers=cfg["W"], sleep_time=0, callbacks=[rec, store], save_tuner=False, suffix_tuner_name=False,
                      tuner_name="verif-c12", max_failures=cfg.get("max_failures", 5),
                      asynchronous_scheduling=cfg.get("async", True),
                      wait_trial_completion_when_stopping=cfg.get("wait", False))
        return dict(tuner=tuner, backend=backend, scheduler=sched, store=store)
    return build


def ctx_of(cfg):
    crit = "+".join(sorted(cfg["stop"]))
    return (f"{cfg['kind']}/W{cfg['W']}/{crit}/{'wait' if cfg.get('wait') else 'nowait'}" + ("/inject" if cfg.get("inject") else "")
            + ("/nan-first" if cfg.get("nan_first") else ""))


def label(cfg):
    d = {k: cfg[k] for k in sorted(cfg) if k != "profile"}
    d["profile"] = tunerx.profile_name(cfg["profile"])
    return d


def task(cfg):
    return tunerx.explore(build_factory(cfg), lambda ex: monitors.termination(ex, cfg), PROP, label(cfg), bound=cfg["k"],
                          max_exec=cfg.get("max_exec"), loop_cap=cfg.get("loop_cap", 60), ctx=ctx_of(cfg),
                          state_of=lambda ex: [(getattr(ex, "first_hold", None), sum(1 for e in ex.log if e[0] == "schedule"),
                                                ex.exc[0] if ex.exc else None)])


CRITERIA = [
    {"max_num_trials_started": 3}, {"max_num_trials_started": 0}, {"max_num_evaluations": 5}, {"max_num_evaluations": 0},
    {"max_num_trials_completed": 1}, {"max_num_trials_finished": 2}, {"max_wallclock_time": 3.5}, {"max_wallclock_time": 0.5},
    {"max_cost": 3.0}, {"min_metric_value": {"m": 1.0}}, {"max_metric_value": {"m": 4.0}},
    {"max_num_trials_started": 4, "max_num_evaluations": 6}, {"max_wallclock_time": 6.5, "max_num_trials_finished": 1},
    {"max_num_trials_started": 40},
]


# ---- simulator family: the wall-clock part of the criterion is rewritten onto simulated time (SimulatorCallback), every other
# ---- part of the user's criterion must keep deciding exactly as the user wrote it
SIM_FIELDS = [
    ("max_num_evaluations", 5), ("max_num_trials_started", 3), ("max_num_trials_completed", 1), ("max_num_trials_finished", 2),
    ("max_cost", 6.0), ("min_metric_value", {"loss": 1.0}), ("max_metric_value", {"loss": 20.0}),
]


def sim_snapshot(tuner):
    d = snapshot(tuner)
    d["simtime"] = tuner.trial_backend.time_keeper.time()
    return d


def sim_build_factory(cfg):
    def build(chooser, log):
        from syne_tune import Tuner, StoppingCriterion
        from syne_tune.blackbox_repository import UserBlackboxBackend
        from syne_tune.backend.simulator_backend.simulator_callback import SimulatorCallback
        from syne_tune.backend.simulator_backend.time_keeper import SimulatedTimeKeeper
        from .c10 import make_blackbox
        import syne_tune.tuning_status as tsmod
        LogicalClock.t = 0.0
        tsmod.time = LogicalClock      # real time plays no role in a simulated run: frozen

        bb, cs, rows, obj = make_blackbox(3, 1, cfg["R"], "monotone")

        class OwnTimeKeeper(SimulatedTimeKeeper):
            def real_time_since_last_recent_exit(self):
                self._assert_has_started()
                return 0.0

        class SimBackend(UserBlackboxBackend):
            def _schedule(self, trial_id, config):
                super()._schedule(trial_id, config)
                log.append(("schedule", trial_id, 0))

        backend = SimBackend(blackbox=bb, elapsed_time_attr="time", max_resource_attr="epochs" if cfg["mra"] else None, seed=0,
                             tuner_sleep_time=cfg["sleep"])
        backend._time_keeper = OwnTimeKeeper()
        sched, info = scheds.make(cfg["kind"], mode="min", seed=cfg["seed"], R=cfg["R"], mra=cfg["mra"], space=cs, metric="loss",
                                  allow_duplicates=True, set_tk=False)
        rec = tunerx.make_recorder_callback(log, loop_cap=cfg.get("loop_cap", 400), extra=sim_snapshot)
        user_crit = StoppingCriterion(**cfg["stop"])
        tuner = Tuner(trial_backend=backend, scheduler=sched, stop_criterion=user_crit, n_workers=cfg["W"], sleep_time=0,
                      callbacks=[rec, SimulatorCallback()], save_tuner=False, suffix_tuner_name=False, tuner_name="verif-c12s",
                      max_failures=3)
        return dict(tuner=tuner, backend=backend, scheduler=sched, user_crit=user_crit)
    return build


def sim_check(ex, cfg):
    """Independent reading of the user's criterion at every loop end; its wall-clock part is read on the simulated time stamps of
    the results handed to the loop (the documented translation); nothing may start, and no iteration may begin, after the
    first iteration at whose end it held; the run may not end earlier."""
    from syne_tune.constants import ST_TUNER_TIME
    v = []
    stop = cfg["stop"]
    other = {k: x for k, x in stop.items() if k != "max_wallclock_time"}
    T = stop.get("max_wallclock_time")
    own_min, own_max = {}, {}
    first_hold, why = None, None
    loops = 0
    for e in ex.log:
        k = e[0]
        if k == "fetch":
            for _t, res_ in e[2]:
                for name_, val_ in res_.items():
                    if isinstance(val_, (int, float)) and not isinstance(val_, bool) and val_ == val_:
                        own_min[name_] = min(own_min.get(name_, val_), val_)
                        own_max[name_] = max(own_max.get(name_, val_), val_)
        elif k == "loop_start":
            loops = e[1]
            if first_hold is not None and loops == first_hold + 1:
                v.append((f"sim:loop-continues-after-criterion:{why}", f"user criterion {stop} held at the end of iteration {first_hold} "
                          f"({why}), iteration {loops} started nevertheless"))
        elif k == "loop_end" and first_hold is None and e[2] is not None:
            snap = dict(e[2], min=dict(own_min), max=dict(own_max))
            if monitors.crit_holds(other, snap, 3):
                first_hold = e[1]
                why = "+".join(sorted(f for f in other if monitors.crit_holds({f: other[f]}, snap, 10 ** 9))) or "failures"
            elif T is not None and own_max.get(ST_TUNER_TIME, float("-inf")) > T:
                first_hold, why = e[1], "max_wallclock_time"
        elif k == "schedule" and first_hold is not None:
            v.append((f"sim:start-after-criterion:{why}", f"trial {e[1]} started after iteration {first_hold}, at whose end the user's "
                      f"criterion {stop} held ({why})"))
    exc = ex.exc
    if exc is not None and exc[0] == "LoopCap":
        if first_hold is not None:
            v.append((f"sim:does-not-terminate:{why}", f"still looping after {loops} iterations, criterion held at {first_hold}"))
    elif exc is not None:
        v.append((f"exc:{exc[0]}@{exc[1]}", f"{exc[0]} escaped Tuner.run at {exc[1]}: {exc[2]}"))
    elif first_hold is None:
        v.append(("sim:ended-before-criterion", f"Tuner.run returned after {loops} iterations although the user's criterion {stop} "
                                                f"never held"))
    if exc is None and ex.tuner.stop_criterion is not ex.extra["user_crit"] and T is not None:
        v.append(("sim:user-criterion-not-restored", "after run() the tuner does not carry the user's StoppingCriterion object"))
    return v


def sim_task(cfg):
    return tunerx.explore(sim_build_factory(cfg), lambda ex: sim_check(ex, cfg), PROP, dict(cfg, family="sim"), bound=0,
                          max_exec=1, loop_cap=cfg.get("loop_cap", 400), ctx="sim/" + cfg["kind"] + "/" + "+".join(sorted(cfg["stop"])),
                          state_of=lambda ex: [(sum(1 for e in ex.log if e[0] == "schedule"),
                                                sum(1 for e in ex.log if e[0] == "loop_start"))])


def sim_configs(tier, seed):
    """every subset of at most two non-wall-clock fields, alone and together with a wall-clock limit that never / first holds"""
    import itertools
    out = []
    subsets = [()] + [(f,) for f in SIM_FIELDS] + list(itertools.combinations(SIM_FIELDS, 2))
    kinds = ("fifo-random", "hb-stopping", "hb-promotion")
    for si, sub in enumerate(subsets):
        for T in (None, 1000.0, 4.5):
            if not sub and T != 4.5:
                continue
            for ki, kind in enumerate(kinds):
                for W in (1, 2):
                    if tier == "quick" and (si + ki + W + seed) % 3 != 0 and len(sub) == 2:
                        continue
                    stop = {k: x for k, x in sub}
                    if T is not None:
                        stop["max_wallclock_time"] = T
                    if set(stop) <= {"max_num_trials_completed"} | ({"max_wallclock_time"} if T == 1000.0 else set()) \
                            and kind != "fifo-random":
                        continue   # early-stopping schedulers let (almost) no trial complete: the criterion would never hold
                    out.append(dict(kind=kind, W=W, R=3, seed=seed, stop=stop, mra=(si + W) % 2 == 0,
                                    sleep=0.1 if (si + ki) % 2 else 1.0, loop_cap=3000, profile="sim"))
    return out


def configs(tier, seed):
    out = []
    kinds = ["fifo-random", "hb-stopping", "hb-promotion", "shb", "pbt", "fifo-grid"]
    for ki, kind in enumerate(kinds):
        for ci, stop in enumerate(CRITERIA):
            if "max_num_trials_started" in stop and stop["max_num_trials_started"] == 40 and kind != "fifo-grid":
                continue  # effectively unbounded: only meaningful with a finite search space
            if "max_num_trials_completed" in stop and kind in ("shb", "pbt", "hb-promotion", "hb-stopping"):
                continue  # these schedulers (almost) never let a trial complete by itself: criterion would never hold
            if "max_num_trials_finished" in stop and len(stop) == 1 and kind in ("shb",):
                continue
            for W in (1, 2, 3):
                if tier == "quick" and (W + ci + ki) % 3 != 0:
                    continue
                for wait in (False, True):
                    for pi, prof in enumerate(tunerx.PROFILES):
                        if (pi + ci + ki + W + seed) % (8 if tier == "quick" else 3) != 0:
                            continue
                        mode = "min"
                        cfg = dict(kind=kind, W=W, R=3, mode=mode, seed=seed, profile=prof, stop=stop, wait=wait,
                                   k=1 if tier == "quick" else 2, F=1 if pi % 2 else 0, max_failures=pi % 2 * (ci % 2),
                                   max_exec=150 if tier == "quick" else 1200)
                        cfg["mra"] = (pi + ci) % 3 != 0
                        cfg["async"] = not (W == 2 and (pi + ci) % 4 == 1)
                        out.append(cfg)
    # metric thresholds when the very first value handed to the loop is NaN
    for kind in ("fifo-random", "hb-stopping"):
        for stop in ({"min_metric_value": {"m": 1.0}}, {"max_metric_value": {"m": 4.0}}):
            for W in (1, 2):
                for prof in (tunerx.PROFILES[0], tunerx.PROFILES[3]):
                    out.append(dict(kind=kind, W=W, R=3, mode="min", seed=seed, profile=prof, stop=stop, wait=False,
                                    k=1 if tier == "quick" else 2, F=0, max_failures=0, nan_first=True,
                                    max_exec=100 if tier == "quick" else 1000))
    # finite search space whose size is not a multiple of n_workers: exhaustion in the middle of a batch of free workers
    for W in (2, 3):
        for gs in (3, 5):
            for prof in tunerx.PROFILES:
                if not prof["burst"] and tier == "quick":
                    continue
                out.append(dict(kind="fifo-grid", W=W, R=2, mode="min", seed=seed, profile=prof, stop={"max_num_trials_started": 40},
                                wait=False, k=1 if tier == "quick" else 2, F=0, max_failures=0, grid_size=gs,
                                max_exec=150 if tier == "quick" else 2000, **{"async": True}))
    # search space exhausted while a trial is still running, and the criterion becomes true during that wait
    for W in (2, 3):
        for crit in ({"max_num_evaluations": 9}, {"max_wallclock_time": 7.5}, {"max_cost": 4.0}):
            for prof in tunerx.PROFILES:
                if prof["burst"] or (tier == "quick" and prof["rr"]):
                    continue
                out.append(dict(kind="fifo-grid", W=W, R=4, mode="min", seed=seed, profile=prof, stop=crit, wait=False,
                                k=1 if tier == "quick" else 2, F=0, max_failures=0, grid_size=W + 1,
                                max_exec=120 if tier == "quick" else 1500, **{"async": True}))
    # injected scheduler exceptions at every call index up to the horizon
    for kind in ("fifo-random", "hb-promotion"):
        for meth, horizon in (("on_trial_result", 6 if tier == "quick" else 10), ("suggest", 4 if tier == "quick" else 6),
                              ("on_trial_complete", 2), ("on_trial_add", 3)):
            for j in range(1, horizon + 1):
                out.append(dict(kind=kind, W=2, R=3, mode="min", seed=seed, profile=tunerx.PROFILES[(j + seed) % 8],
                                stop={"max_num_trials_started": 3}, wait=(j % 2 == 0), k=0 if tier == "quick" else 1,
                                inject=(meth, j), expect_exc="Injected", max_exec=100 if tier == "quick" else 1000))
    return out


def run(tier, seed):
    res = Result()
    cfgs = configs(tier, seed)
    for cov, viols in pmap(task, cfgs):
        res.cov.merge(cov)
        res.violations.extend(viols)
    scfgs = sim_configs(tier, seed)
    for cov, viols in pmap(sim_task, scfgs):
        res.cov.merge(cov)
        res.violations.extend(viols)
    res.cov.extra["simulator_criterion_runs"] = len(scfgs)
    res.rule = ("Stateless deviation-bounded exploration of the real Tuner.run over ScriptedBackend for every StoppingCriterion field "
                "(thresholds flipping at the first / a middle iteration / never) and pairs x scheduler x n_workers x "
                "wait_trial_completion x (a)synchronous scheduling x failures vs max_failures x scheduler exceptions injected at "
                "every call index; wall-clock owned by a logical clock ticking once per loop iteration. Oracle: independent reading "
                "of the criterion on the status snapshot at each loop end; nothing started after the first iteration at whose end "
                "it held; exit (or drain, in wait mode) right then; after run(): no job alive, stop_all + on_tuning_end once, results "
                "stored, status counters and per-trial final status equal ground truth. states = distinct (first-hold iteration, "
                "#starts, exception).")
    res.bounds = {"configs": len(cfgs), "tier": tier}
    res.assumptions = list(env.ASSUMPTIONS) + ["syne_tune.tuning_status.time replaced by a logical clock (perf_counter only)",
                                               "'left running' judged on scripted workers (as the property states, not on the simulator)"]
    return res


def replay(data):
    cfg = dict(data["cfg"])
    if cfg.get("family") == "sim":
        ex = tunerx.run_tuner(sim_build_factory(cfg), tunerx.Chooser(data["choices"]), cfg.get("loop_cap", 400))
        out = [Violation(PROP, k, w) for k, w in sim_check(ex, cfg)]
        tunerx.clean_scratch()
        return out
    prof = cfg["profile"]
    if isinstance(prof, str):
        b, r, l = prof.split("/")
        cfg["profile"] = dict(burst=b == "burst", rr=r == "rr", lag=l == "lag")
    if cfg.get("inject"):
        cfg["inject"] = tuple(cfg["inject"])
    ex = tunerx.run_tuner(build_factory(cfg), tunerx.Chooser(data["choices"]), cfg.get("loop_cap", 120))
    out = [Violation(PROP, k, w) for k, w in monitors.termination(ex, cfg)]
    tunerx.clean_scratch()
    return out
