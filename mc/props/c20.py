"""C20 — a checkpoint exists whenever a trial is resumed or warm-started from it."""
from .. import env
from ..core import Result, pmap, Violation
from .. import tunerx, scheds, monitors
from ..backends import ScriptedBackend, ScriptSpec, make_scripted_local_backend
from .c01 import table

LEVEL = "model_checking"
PROP = "C20"


def build_factory(cfg):
    def build(chooser, log):
        from syne_tune import Tuner, StoppingCriterion
        R = cfg["R"]
        kw = {}
        if cfg.get("speculative"):
            kw["early_checkpoint_removal_kwargs"] = {"max_num_checkpoints": cfg["W"], "approx_steps": 3, "max_wallclock_time": 3600}
        if cfg["kind"] == "pbt":
            kw["population_size"] = cfg.get("pop", 2)
        sched, info = scheds.make(cfg["kind"], mode=cfg["mode"], seed=cfg["seed"], R=R, mra=cfg.get("mra", True), **kw)
        tunerx.wrap_scheduler(sched, log)
        sign = 1.0 if cfg["mode"] == "min" else -1.0
        R_job = R + 2 if cfg["kind"] == "pbt" else R
        extra = (lambda t, level, run: {"cost": 1.0 + 0.5 * level + 0.1 * t}) if cfg["kind"] == "hb-cost" else None
        tab = table(8, R_job, sign)
        if cfg.get("ties"):
            # pairs of trials report exactly the same values (ties at a promotion cut are legal inputs)
            tab = [tab[(t // 2) * 2] for t in range(8)]
        if cfg.get("cross"):
            # learning curves that cross after the first level: the ranking at level 1 is the reverse of the ranking above
            # (PASHA raises its resource cap only when rankings of its two top rungs disagree)
            tab = [[row[0]] + [sign * 1.0 - v for v in row[1:]] for row in tab]
        spec = ScriptSpec(tab, R_job, max_resource_attr=info["mra"], checkpointing=True, extra=extra)
        make = make_scripted_local_backend if cfg.get("files") else ScriptedBackend
        backend = make(chooser, spec, cfg["W"], profile=cfg["profile"], log=log, late_results=False,
                       delete_checkpoints=cfg["delete"])
        rec = tunerx.make_recorder_callback(log, loop_cap=cfg.get("loop_cap", 200))
        tuner = Tuner(trial_backend=backend, scheduler=sched, stop_criterion=StoppingCriterion(**cfg["stop"]),
                      n_workers=cfg["W"], sleep_time=0, callbacks=[rec], save_tuner=False, suffix_tuner_name=False,
                      tuner_name="verif-c20", max_failures=5, wait_trial_completion_when_stopping=cfg.get("wait", False))
        return dict(tuner=tuner, backend=backend, scheduler=sched)
    return build


def ctx_of(cfg):
    return (f"{cfg['kind']}{'+spec' if cfg.get('speculative') else ''}/W{cfg['W']}/{'del' if cfg['delete'] else 'keep'}"
            + ("" if cfg.get("mra", True) else "/nomra") + ("/ties" if cfg.get("ties") else "") + ("/cross" if cfg.get("cross") else "") + ("/files" if cfg.get("files") else ""))


def label(cfg):
    d = {k: cfg[k] for k in sorted(cfg) if k != "profile"}
    d["profile"] = tunerx.profile_name(cfg["profile"])
    return d


def make_check(cfg):
    def check(ex):
        vs = monitors.checkpoints(ex, speculative=cfg.get("speculative", False))
        if ex.exc is not None and ex.exc[0] != "LoopCap" and not (ex.exc[0] == "ValueError" and "no metrics got observed" in ex.exc[2]):
            key = f"exc:{ex.exc[0]}@{ex.exc[1]}"
            cad = [k for k, _ in vs if k.startswith("checkpoint:copy-after-delete")]
            if ex.exc[0] == "FileNotFoundError" and cad:
                key += ":" + cad[-1].split(":")[-1]   # same root cause as the copy-after-delete just reported
            vs.append((key, f"{ex.exc[0]} escaped Tuner.run at {ex.exc[1]}: {ex.exc[2]}"))
        return vs
    return check


def task(cfg):
    return tunerx.explore(build_factory(cfg), make_check(cfg), PROP, label(cfg), bound=cfg["k"], max_exec=cfg.get("max_exec"),
                          loop_cap=cfg.get("loop_cap", 200), ctx=ctx_of(cfg),
                          state_of=lambda ex: [tuple(sorted(ex.backend.ckpt.items())) + tuple(sorted(ex.backend.deleted)) + getattr(ex, "ckpt_counts", ())])


def configs(tier, seed):
    out = []
    for ki, kind in enumerate(["hb-promotion", "hb-pasha", "shb", "dehb", "pbt", "hb-promotion+spec", "hb-cost"]):
        spec = kind.endswith("+spec")
        base = kind.replace("+spec", "")
        for W in (2, 3):
            for delete in (True, False):
                if not delete and tier == "quick" and W == 3:
                    continue
                for pi, prof in enumerate(tunerx.PROFILES):
                    if tier == "quick" and not delete and pi % 4 != (seed % 4):
                        continue
                    cfg = dict(kind=base, speculative=spec, W=W, R=4, mode="min" if (pi + W) % 2 else "max", seed=seed, profile=prof,
                               mra=(base == "pbt") or ((pi + ki) % 2 == 0), ties=(pi % 4 == 1),   # without max_resource_attr jobs run on past their milestone
                               delete=delete, k=1 if tier == "quick" else 2, stop={"max_num_trials_started": 5 if base != "pbt" else 6},
                               wait=(pi % 2 == 0), pop=2 if W == 2 else 3, max_exec=250 if tier == "quick" else 5000)
                    out.append(cfg)
    # long runs (beyond the first bracket / with a full PBT population)
    for kind in ("shb", "dehb", "pbt", "hb-promotion"):
        for prof in (tunerx.PROFILES[0], tunerx.PROFILES[7]):
            for W in (2, 3):
                out.append(dict(kind=kind, speculative=False, W=W, R=4, mode="min", seed=seed, profile=prof, delete=True,
                                mra=(kind == "pbt") or W == 2, ties=False, k=1 if tier == "quick" else 2,
                                stop={"max_num_trials_started": 10}, wait=True, pop=3, loop_cap=400,
                                max_exec=100 if tier == "quick" else 2000))
    # PASHA with crossing learning curves: the resource cap grows during the run, trials that waited at the old cap are
    # promoted beyond it later on
    for W in (1, 2):
        for mra in (True, False):
            for prof in (tunerx.PROFILES[0], tunerx.PROFILES[5]):
                out.append(dict(kind="hb-pasha", speculative=False, W=W, R=8, mode="min" if mra else "max", seed=seed, profile=prof,
                                delete=True, mra=mra, ties=False, cross=True, k=1 if tier == "quick" else 2,
                                stop={"max_num_trials_started": 8}, wait=True, pop=2, loop_cap=400,
                                max_exec=80 if tier == "quick" else 1500))
    # the same through LocalBackend's real shutil checkpoint copy / delete and marker files
    n = len(out)
    for i in range(0, n, 5 if tier == "quick" else 3):
        if out[i]["delete"]:
            out.append(dict(out[i], files=True, max_exec=100 if tier == "quick" else 1500))
    return out


def run(tier, seed):
    res = Result()
    cfgs = configs(tier, seed)
    for cov, viols in pmap(task, cfgs):
        res.cov.merge(cov)
        res.violations.extend(viols)
    res.rule = ("Stateless deviation-bounded exploration of the real Tuner.run over ScriptedBackend with an in-memory checkpoint store "
                "(a job writes its checkpoint with every report): all batchings / merge orders / completion lags with <=k deviations "
                "around 8 default profiles, for pause-resume schedulers (promotion, PASHA, cost, synchronous HB + RemoveCheckpointsCallback, "
                "DEHB, PBT, promotion with speculative early removal) x workers x delete_checkpoints; oracle on every "
                "delete_checkpoint / resume_trial / copy_checkpoint call. states = distinct checkpoint-store contents.")
    res.bounds = {"configs": len(cfgs), "tier": tier}
    res.assumptions = list(env.ASSUMPTIONS) + ["LocalBackend's shutil copy/delete replaced by an in-memory store with the same call sites"]
    return res


def replay(data):
    cfg = dict(data["cfg"])
    prof = cfg["profile"]
    if isinstance(prof, str):
        b, r, l = prof.split("/")
        cfg["profile"] = dict(burst=b == "burst", rr=r == "rr", lag=l == "lag")
    ex = tunerx.run_tuner(build_factory(cfg), tunerx.Chooser(data["choices"]), cfg.get("loop_cap", 200))
    tunerx.clean_scratch()
    return [Violation(PROP, k, w) for k, w in make_check(cfg)(ex)]
