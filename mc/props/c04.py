"""C04 — promotion-type Hyperband (ASHA, PASHA, cost-aware, RUSH k=0) promotes only eligible trials."""
from .. import env
from ..core import Result, pmap, Violation
from ..schedx import World, explore, Oracle
from ..world import table_from_perms, all_perms, rotate
from ..refs.rungs import rung_levels
from ..refs.promotion import PromotionRef
from .c03 import RUNG_SYSTEMS

from ..scheds import shared as scheds_shared

LEVEL = "model_checking"
PROP = "C04"


def make_scheduler(cfg):
    from syne_tune.optimizer.schedulers import HyperbandScheduler
    from syne_tune.config_space import uniform
    rs = RUNG_SYSTEMS[cfg["rs"]]
    kw = dict(searcher="random", type=cfg["type"], metric="m", mode=cfg["mode"], resource_attr="epoch",
              brackets=cfg["brackets"], rung_system_per_bracket=cfg["per_bracket"],
              random_seed=cfg["seed"], search_options=scheds_shared("so", {"debug_log": False}))
    space = {"a": uniform(0, 1)}
    if cfg.get("use_mra"):
        space["epochs"] = rs["max_t"]
        kw["max_resource_attr"] = "epochs"
    else:
        kw["max_t"] = rs["max_t"]
    if "levels" in rs:
        kw["rung_levels"] = list(rs["levels"])
    elif "rf" in rs:
        kw.update(grace_period=rs["grace"], reduction_factor=rs["rf"])
    else:
        kw.update(grace_period=rs["grace"], reduction_factor=None, rung_increment=rs["inc"])
    if cfg["type"] == "cost_promotion":
        kw["cost_attr"] = "cost"
    if cfg["type"] == "rush_promotion":
        kw["rung_system_kwargs"] = {"num_threshold_candidates": 0}
    s = HyperbandScheduler(space, **kw)
    s.set_time_keeper(env.ConstTimeKeeper())
    return s


COSTS = [1.0, 2.3, 0.7, 4.1, 1.9, 3.2]


def cost_table(T, R, variant):
    """cumulative cost to reach level r; variant rotates which trial is expensive"""
    tab = []
    for t in range(T):
        # the cost of a level depends on trial *and* level in a non-proportional way: the cost of the job that continues
        # from a checkpoint is then not a fixed fraction of the total cost (a rung system reading per-job cost decides differently)
        if variant >= 10:
            # front-loaded / back-loaded trials alternate (which ones: variant): total cost and cost of the last job rank differently
            inc = [(5.0 if (r + t + variant) % 2 == 0 else 1.0) * (1.0 + 0.03 * t + 0.011 * r) for r in range(R)]
        else:
            inc = [COSTS[(t + variant + 3 * r + (r * r) % 5) % len(COSTS)] * (1.0 + 0.07 * t) for r in range(R)]
        tab.append([sum(inc[: r + 1]) for r in range(R)])
    return tab


class PromoInvariant(Oracle):
    """No trial is promoted twice from one rung; impl rung contents == reference."""

    def __init__(self, ref):
        self.ref = ref

    def after(self, world, ev, obs):
        try:
            systems = world.s.terminator._rung_systems
            impl = []
            for rs_ in systems:
                d = {}
                for rung in rs_._rungs:
                    ids = [int(e.trial_id) for e in rung.data]
                    if len(ids) != len(set(ids)):
                        return [("promotion:rung-duplicate", f"trial recorded twice in rung {rung.level}: {ids}")]
                    if ids:
                        d[rung.level] = sorted((int(e.trial_id), float(e.metric_val), bool(e.was_promoted)) for e in rung.data)
                impl.append(d)
        except AttributeError:
            return []
        ref = [{lv: sorted((e[0], float(e[1]), bool(e[3])) for e in lst) for lv, lst in d.items() if lst} for d in self.ref.rungs]
        if impl != ref:
            return [("promotion:rung-contents", f"rung contents differ: impl {impl} reference {ref}")]
        if self.ref.kind == "cost_promotion":
            # the recorded cost of an entry is the *total* cost c(x, r) of the trial up to that level (class docstring)
            for rs_, d in zip(systems, self.ref.rungs):
                for rung in rs_._rungs:
                    want = {e[0]: e[2] for e in d.get(rung.level, [])}
                    for e in rung.data:
                        w_ = want.get(int(e.trial_id))
                        if w_ is not None and abs(float(e.cost_val) - w_) > 1e-9 * max(1.0, abs(w_)):
                            return [("promotion:rung-cost", f"rung {rung.level}: trial {e.trial_id} recorded with cost {e.cost_val}, "
                                                            f"total cost to reach the level is {w_}")]
        return []


def build_world(cfg):
    rs = RUNG_SYSTEMS[cfg["rs"]]
    levels = rung_levels(**rs)
    max_t = rs["max_t"]
    s = make_scheduler(cfg)
    nb = min(cfg["brackets"], len(levels) + 1)
    sign = 1.0 if cfg["mode"] == "min" else -1.0
    perms = {int(k): tuple(v) for k, v in cfg["perms"].items()}
    table = None if cfg.get("curve") else table_from_perms(cfg["T"], max_t, perms, sign, zero_rank=cfg.get("zero_rank"))
    if cfg.get("curve"):
        from .c15 import curve_table
        V, p1, p2, p3 = cfg["curve"]
        table = [[sign * x for x in row] for row in curve_table(dict(T=cfg["T"], R=max_t, good=cfg["good"]), V, p1, p2, p3)]
    mra = "epochs" if cfg.get("use_mra") else None
    spec = dict(W=cfg["W"], T=cfg["T"], R=max_t, table=table, brackets=(nb if nb > 1 else 0) if not cfg.get("free_brackets") else 0,
                max_resource_attr=mra, scratch=cfg.get("scratch", False), fail_budget=cfg.get("F", 0), id0=cfg.get("id0", 0))
    if cfg["type"] == "cost_promotion":
        spec["cost"] = cost_table(cfg["T"], max_t, cfg.get("cost_variant", 0))
    kind = {"promotion": "promotion", "rush_promotion": "promotion", "pasha": "pasha",
            "cost_promotion": "cost_promotion"}[cfg["type"]]
    ref = PromotionRef(levels, max_t, cfg["mode"], nb, cfg["per_bracket"], kind=kind, mra=mra)
    w = World(s, spec, [ref, PromoInvariant(ref)])
    if list(s.rung_levels) != levels or s.max_t != max_t:
        w.dead = ("EXC", "RungLevels", "reference", f"impl {s.rung_levels}/{s.max_t} ref {levels}/{max_t}")
    return w


def ctx_of(cfg):
    return f"{cfg['type']}/b{cfg['brackets']}{'p' if cfg['per_bracket'] else 's'}"


def label(cfg):
    return {k: cfg[k] for k in sorted(cfg)}


def task(cfg):
    if cfg.get("subsets"):
        return task_tables(cfg)
    cov, viols = explore(lambda: build_world(cfg), PROP, label(cfg), max_depth=cfg.get("D"),
                         max_states=cfg.get("max_states"), ctx=ctx_of(cfg))
    return cov, viols


def task_tables(cfg):
    """every table of a family of criss-crossing learning curves on the one history a single worker produces (levels 1, 3, 9):
    many promotions, PASHA's cap rising through all its levels; the reference is stepped in lock-step"""
    from .c15 import tables_of
    from ..core import Coverage
    cov, viols = Coverage(), []
    for V, p1, p2, p3 in tables_of(cfg):
        c = dict(cfg, curve=[list(V), list(p1), list(p2), list(p3)])
        c.pop("subsets")
        w = build_world(c)
        hist = []
        for _ in range(250):
            en = w.enabled()
            if not en or w.dead:
                break
            non_s = [e for e in en if e[0] != "S"]
            ev = non_s[0] if non_s else en[0]
            hist.append(ev)
            obs, vs = w.step(ev)
            cov.add("transitions")
            if obs[0] == "EXC":
                vs = vs + [(f"exc:{obs[1]}@{obs[2]}", obs[3])]
            if obs[0] == "suggest" and obs[1] == "over_T":
                break
            for k, what in vs:
                key = ctx_of(c) + "/tables|" + k
                if not any(v.key == key for v in viols):
                    viols.append(Violation(PROP, key, what + f" [table V={V} orders {p1},{p2},{p3}, single-worker history of {len(hist)} events]",
                                           {"cfg": label(c), "history": [list(e) for e in hist]}))
            if vs:
                break
        cov.add("states", len(hist))
        cov.add("evaluations")
        cov.outcome("tables:promotions=%d" % sum(1 for o in w.trace if o[0] == "suggest" and o[1] == "resume"))
        cov.outcome("tables:pasha-cap=%s" % getattr(w.s.terminator._rung_systems[0], "current_max_t", None))
    return cov, viols


def configs(tier, seed, tables=False):
    """tables=True adds the table-enumeration tasks (only C04's own run uses them; C11/C13/C15/C16 reuse the BFS worlds)"""
    out = []
    if tier == "quick":
        systems = ["g1rf2m4", "lv125m6"]
    else:
        systems = ["g1rf2m4", "lv125m6", "g1rf3m9", "g2rf2m8", "g1inc2m7", "g1rf2m5"]
    for rs_name in systems:
        rs = RUNG_SYSTEMS[rs_name]
        levels = rung_levels(**rs)
        for mode in ("min", "max"):
            for brackets, per_bracket in ((1, False), (2, False), (2, True), (3, False)):
                for typ in ("promotion", "pasha", "cost_promotion", "rush_promotion"):
                    if typ == "rush_promotion" and (brackets > 1 or mode == "max"):
                        continue
                    if tier == "quick" and brackets > 1 and typ == "cost_promotion":
                        continue
                    if brackets == 3 and (len(levels) < 3 or typ in ("pasha", "rush_promotion") or (tier == "quick" and mode == "max")):
                        continue   # three brackets need three rung levels (a bracket's first milestone above a promotion target)
                    T = 4 if brackets == 1 else 3
                    W = 2
                    if tier == "thorough" and brackets == 1:
                        W = 3
                    p1 = rotate(all_perms(T), seed * 5 + len(out))
                    n1 = 2 if tier == "quick" else (4 if brackets == 1 else 2)
                    for i, perm1 in enumerate(p1[:n1]):
                        perm2 = tuple(reversed(range(T))) if i % 2 else tuple(range(T))
                        perms = {str(levels[0]): perm1}
                        if len(levels) > 1:
                            perms[str(levels[1])] = perm2
                        cfg = dict(rs=rs_name, mode=mode, brackets=brackets, per_bracket=per_bracket, type=typ,
                                   T=T, W=W, perms=perms, seed=seed, use_mra=(i % 2 == 0),
                                   scratch=(i % 2 == 1), cost_variant=i)
                        cfg["zero_rank"] = [T - 1, None, 1][(i + len(out)) % 3]
                        cfg["id0"] = 8 if len(out) % 2 else 0
                        cfg["max_states"] = 3000 if tier == "quick" else 10000
                        out.append(cfg)
                        if typ == "cost_promotion" and brackets == 1:
                            # checkpointed jobs (cost of the job != total cost) with alternating front-/back-loaded cost curves
                            for cv in (10, 11):
                                c2 = dict(cfg, scratch=False, use_mra=(cv == 10), cost_variant=cv, T=5 if tier == "thorough" else 4)
                                if c2["T"] != T:
                                    c2["perms"] = {k: tuple(v) + tuple(range(T, c2["T"])) for k, v in perms.items()}
                                out.append(c2)
    if not tables:
        return out
    # table enumeration on the long single-worker history (see task_tables)
    import itertools
    from .c15 import SPACED
    subsets = list(itertools.combinations(SPACED[:5] if tier == "quick" else SPACED, 3))
    for typ in ("pasha", "promotion"):
        for mode in ("min", "max"):
            if tier == "quick" and typ == "promotion" and mode == "max":
                continue
            for i in range(0, len(subsets), 2):
                out.append(dict(rs="g1rf3m27", mode=mode, brackets=1, per_bracket=False, type=typ, T=9, W=1, perms={}, seed=seed,
                                use_mra=True, scratch=False, good=[0, 2, 4], subsets=[list(v) for v in subsets[i:i + 2]]))
    return out


def run(tier, seed):
    res = Result()
    cfgs = configs(tier, seed, tables=True)
    for cov, viols in pmap(task, cfgs):
        res.cov.merge(cov)
        res.violations.extend(viols)
    res.rule = ("BFS over event histories {suggest(bracket), report(t), complete(t)} of the real HyperbandScheduler "
                "(promotion / pasha / cost_promotion / rush_promotion with 0 candidates) with digest dedup; configuration = "
                "rung system x mode x brackets x shared/per-bracket x rank permutation x max_resource_attr x "
                "restart-from-scratch; oracle = reference promotion rule (top-down scan, quantile or cumulative-cost "
                "eligibility, best unpromoted first, exact next milestone) + rung-content/was_promoted invariant + PASHA cap "
                "monotonicity. distinct_nontrivial = distinct implementation states.")
    res.bounds = {"configs": len(cfgs), "tier": tier}
    res.assumptions = list(env.ASSUMPTIONS) + [
        "bracket sampling owned via scheduler.bracket_distribution (one-hot chosen by explorer)",
        "PASHA cap is read from the implementation (rung_system.current_max_t) and only checked for monotonicity/membership",
        "near ties accept both outcomes"]
    return res


def replay(data):
    cfg = data["cfg"]
    hist = [tuple(e) for e in data["history"]]
    w = build_world(cfg)
    out = []
    for ev in hist:
        obs, vs = w.step(ev)
        if obs[0] == "EXC":
            out.append(Violation(PROP, f"exc:{obs[1]}@{obs[2]}", obs[3]))
        for k, what in vs:
            out.append(Violation(PROP, k, what))
    return out
