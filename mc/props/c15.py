"""C15 — minimising f and maximising -f are the same experiment."""
from .. import env
from ..core import Result, pmap, Violation, Coverage
from ..schedx import World, explore, Oracle, digest_str
from .. import scheds, tunerx
from . import c03, c04, c05, c17
from .c01 import table

LEVEL = "model_checking"
PROP = "C15"


def strip(obs):
    """observation without anything that legitimately differs between the twins (nothing: ids, configs, decisions)"""
    return obs


class Twin:
    """Two Worlds (mode min on f, mode max on -f) stepped in lock-step; looks like a World to schedx.explore."""

    def __init__(self, a, b):
        import random
        import numpy as np
        self.a, self.b = a, b
        # unseeded library code (MOASHA) draws from the global generators: each twin owns a copy of their state
        np.random.seed(env.seed() + 777)
        random.seed(env.seed() + 777)
        self.rng = {"a": (np.random.get_state(), random.getstate()), "b": (np.random.get_state(), random.getstate())}
        self.s = a.s
        self.dead = None
        self.trace = a.trace
        self.status = a.status
        self.pruned = False

    def enabled(self):
        if self.dead or self.pruned:
            return []
        ea = self.a.enabled()
        return ea

    def _ties(self):
        return sum(getattr(o, "near_ties", 0) for w in (self.a, self.b) for o in w.oracles)

    def step(self, ev):
        t0 = self._ties()
        eb = self.b.enabled()
        if ev not in eb:
            self.dead = ("EXC", "TwinDiverged", "driver", f"event {ev} enabled for min-twin only")
            return ("twin", "diverged"), [("twin:enabled-events-differ", f"event {ev} is enabled in the min run but not in the max run on the negated table")]
        oa, _ = self._step("a", ev)
        ob, _ = self._step("b", ev)
        if self._ties() > t0:
            self.pruned = True  # a threshold within round-off of a metric value: excluded by the property
            return ("pruned", "near-tie"), []
        if oa[0] == "EXC" or ob[0] == "EXC":
            if oa[:3] != ob[:3]:
                self.dead = oa if oa[0] == "EXC" else ob
                return self.dead, [(f"twin:exception-one-sided:{self.dead[1]}@{self.dead[2]}", f"min run: {oa}; max run on -f: {ob}")]
            self.dead = oa
            return ("twin", "both-raise"), []   # both raise identically: not a min/max asymmetry
        if oa != ob:
            what = "decision" if oa[0] == "report" else ("suggestion" if oa[0] == "suggest" else oa[0])
            return oa, [(f"twin:{what}-differs", f"after the same {len(self.a.trace)} events: mode min on f gives {oa}, mode max on -f gives {ob}")]
        return oa, []

    def _step(self, which, ev):
        import random
        import numpy as np
        np.random.set_state(self.rng[which][0])
        random.setstate(self.rng[which][1])
        out = getattr(self, which).step(ev)
        self.rng[which] = (np.random.get_state(), random.getstate())
        return out

    def digest(self):
        import hashlib
        r = hashlib.md5(self.rng["a"][0][1].tobytes()).hexdigest() + str(self.rng["a"][0][2])
        return digest_str(self.a.digest() + self.b.digest() + r)


def flip(cfg):
    c = dict(cfg)
    c["mode"] = "max" if cfg["mode"] == "min" else "min"
    return c


def build_twin(t):
    src, cfg = t["src"], t["cfg"]
    cfg_min = dict(cfg, mode="min")
    cfg_max = dict(cfg, mode="max")
    if src in ("c03", "c04", "c05"):
        mod = {"c03": c03, "c04": c04, "c05": c05}[src]
        return Twin(mod.build_world(cfg_min), mod.build_world(cfg_max))
    return Twin(build_generic(cfg_min), build_generic(cfg_max))


def build_generic(cfg):
    sched, info = scheds.make(cfg["kind"], mode=cfg["mode"], seed=cfg["seed"], R=cfg["R"], mra=cfg.get("mra", True),
                              **cfg.get("kw", {}))
    sign = 1.0 if cfg["mode"] == "min" else -1.0
    T = cfg["T"]
    tab = table(T, cfg["R"], sign, two=info["metrics"] is not None)
    spec = dict(W=cfg["W"], T=T, R=cfg["R"] + (2 if cfg["kind"] == "pbt" else 0), table=tab, brackets=0, max_resource_attr=info["mra"],
                fail_budget=cfg.get("F", 0), metrics=info["metrics"])
    if cfg["kind"] == "pbt":
        spec["table"] = table(T, cfg["R"] + 2, sign)
    if cfg["kind"] == "hb-cost":
        spec["cost"] = c04.cost_table(T, cfg["R"], 0)
    return World(sched, spec, [])


def task_a(t):
    ctx = f"{t['src']}/" + ({"c03": c03.ctx_of, "c04": c04.ctx_of, "c05": c05.ctx_of}[t["src"]](t["cfg"]) if t["src"] != "generic"
                           else f"{t['cfg']['kind']}/W{t['cfg']['W']}")
    cov, viols = explore(lambda: build_twin(t), PROP, {"src": t["src"], "cfg": t["cfg"]}, max_states=t.get("max_states"), ctx=ctx,
                         exc_policy="ignore")
    cov.extra["pruned_near_ties"] = cov.outcomes.get("pruned:near-tie", 0)
    return cov, viols


# ---------------------------------------------------------------- tuner-level twins (status / best configuration)

def task_b(cfg):
    cov = Coverage()
    viols = []

    def run_one(mode, choices):
        c = dict(cfg, mode=mode)
        ex = tunerx.run_tuner(c17.build_factory(c), tunerx.Chooser(choices), 150)
        best = None
        if ex.exc is None and ex.tuner.tuning_status is not None and ex.tuner.tuning_status.overall_metric_statistics.count > 0:
            import contextlib, io
            with contextlib.redirect_stdout(io.StringIO()):
                # every metric the scheduler optimises (multi-objective: one mode per metric), by index
                nm = len(ex.tuner.scheduler.metric_names())
                best = tuple(ex.tuner.best_config(metric=i)[0] for i in range(nm)) if nm > 1 else ex.tuner.best_config()[0]
        ts = ex.tuner.tuning_status
        counters = None if ts is None else (ts.num_trials_started, ts.num_trials_completed, ts.num_trials_failed, ts.num_trials_finished)
        trace = [(e[0], e[1], e[3]) if e[0] == "on_trial_result" else (e[:4] if e[0] == "suggest" else e[:2]) for e in ex.log
                 if e[0] in ("suggest", "on_trial_result", "on_trial_remove", "on_trial_complete", "on_trial_error")]
        tunerx.clean_scratch()
        return ex, best, counters, [tuple(map(str, x)) if x[0] != "suggest" else (x[0], x[1], str(x[2]), str(x[3])) for x in trace]

    # enumerate the choice tree on the min twin, replay identical choices on the max twin
    stack = [()]
    seen = set()
    while stack:
        prefix = stack.pop()
        ex, best_a, cnt_a, tr_a = run_one("min", prefix)
        choices = [p[2] for p in ex.points]
        try:
            ex_b, best_b, cnt_b, tr_b = run_one("max", choices)
        except tunerx.ReplayDiverged as e:
            viols.append(Violation(PROP, f"tuner/{cfg['kind']}|twin:choice-points-differ", str(e), {"cfg": c17.label(cfg), "choices": choices}))
            continue
        cov.add("evaluations", 2)
        cov.add("traces_validated_against_impl", 2)
        cov.add("transitions", sum(1 for e in ex.log if e[0] == "loop_start"))
        seen.add(tuple(tr_a))
        key = None
        if tr_a != tr_b:
            key, what = "twin:tuner-trace-differs", f"scheduler call traces differ: {tr_a[:12]} vs {tr_b[:12]}"
        elif best_a != best_b:
            key, what = "twin:best-config-differs", f"best trial {best_a} (min on f) vs {best_b} (max on -f)"
        elif cnt_a != cnt_b:
            key, what = "twin:status-counters-differ", f"{cnt_a} vs {cnt_b}"
        if key and not any(v.key.endswith(key) for v in viols):
            viols.append(Violation(PROP, f"tuner/{cfg['kind']}|{key}", what, {"cfg": c17.label(cfg), "choices": choices}))
        ndev = sum(1 for c in prefix if c != 0)
        if ndev + 1 <= cfg["k"]:
            for i in range(len(prefix), len(ex.points)):
                for alt in range(ex.points[i][1] - 1, 0, -1):
                    stack.append(tuple(choices[:i]) + (alt,))
        if cov.c["evaluations"] >= cfg.get("max_exec", 200):
            cov.cap(f"executions {cfg.get('max_exec', 200)}")
            break
    cov.add("states", len(seen))
    cov.add("distinct_nontrivial", len(seen))
    return cov, viols


# ---------------------------------------------------------------- table enumeration on one long single-worker history

SPACED = [0.318, 1.207, 2.449, 3.061, 4.733, 5.392]


def curve_table(cfg, V, p1, p2, p3):
    """T learning curves over R epochs: the trials in cfg['good'] take the values V (a 3-subset of SPACED, unequal gaps) in
    the rank orders p1, p2, p3 at epochs 1, 2, 3 (criss-crossing curves, moves up and down between rung levels) and keep
    the epoch-3 order afterwards; all other trials are poor and never leave the first rung"""
    T, R, good = cfg["T"], cfg["R"], cfg["good"]
    tab = []
    for t in range(T):
        if t in good:
            i = good.index(t)
            row = [V[p1[i]], V[p2[i]], V[p3[i]]] + [V[p3[i]] - 0.013 * (e - 3) for e in range(4, R + 1)]
        else:
            row = [20.0 + t - 0.013 * e for e in range(1, R + 1)]
        tab.append(row)
    return tab


def long_run(cfg, tab, mode):
    sign = 1.0 if mode == "min" else -1.0
    s, info = scheds.make(cfg["kind"], mode=mode, seed=cfg["seed"], R=cfg["R"], mra=True, **cfg.get("kw", {}))
    spec = dict(W=1, T=cfg["T"], R=cfg["R"], table=[[sign * v for v in row] for row in tab], brackets=0, max_resource_attr=info["mra"])
    w = World(s, spec, [])
    evs = []
    for _ in range(cfg.get("horizon", 250)):
        en = w.enabled()
        if not en or w.dead:
            break
        non_s = [e for e in en if e[0] != "S"]
        ev = non_s[0] if non_s else en[0]
        evs.append(ev)
        w.step(ev)
    return evs, [o[:3] if o[0] == "suggest" else o for o in w.trace]


def tables_of(cfg):
    import itertools
    perms = list(itertools.permutations(range(3)))
    for V in cfg["subsets"]:
        for p1 in perms:
            for p2 in perms:
                for p3 in perms:
                    yield tuple(V), p1, p2, p3


def task_t(cfg):
    """every table of the family on the one history a single worker produces; min on f vs max on -f"""
    cov, viols = Coverage(), []
    ctx = f"tables/{cfg['kind']}"
    for V, p1, p2, p3 in tables_of(cfg):
        tab = curve_table(cfg, V, p1, p2, p3)
        ea, ta = long_run(cfg, tab, "min")
        eb, tb = long_run(cfg, tab, "max")
        cov.add("evaluations", 2)
        cov.add("traces_validated_against_impl", 2)
        cov.add("transitions", len(ta) + len(tb))
        cov.add("states", len(ta))
        cov.outcome("tables:promotions=%d" % sum(1 for o in ta if o[0] == "suggest" and o[1] == "resume"))
        if ta != tb or ea != eb:
            i = next((i for i, (x, y) in enumerate(zip(ta, tb)) if x != y), min(len(ta), len(tb)))
            what = "decision" if i < len(ta) and ta[i][0] == "report" else "suggestion"
            key = f"{ctx}|twin:{what}-differs"
            if not any(v.key == key for v in viols):
                viols.append(Violation(PROP, key, f"table V={V} rank orders at epochs 1,2,3 = {p1},{p2},{p3}; single-worker history, after {i} events: "
                                                  f"mode min on f gives {ta[i] if i < len(ta) else None}, mode max on -f gives {tb[i] if i < len(tb) else None}",
                                       {"engine": "tables", "cfg": cfg, "table": [list(V), list(p1), list(p2), list(p3)]}))
    return cov, viols


def task(t):
    return task_a(t[1]) if t[0] == "A" else (task_t(t[1]) if t[0] == "T" else task_b(t[1]))


def configs(tier, seed):
    out = []
    for src, mod in (("c03", c03), ("c04", c04), ("c05", c05)):
        base = [c for c in mod.configs(tier, seed) if c["mode"] == "min"]
        step = 4 if tier == "quick" else 2
        for i, c in enumerate(base):
            # (failure events are part of the schedules: every synchronous configuration with a failure budget is kept)
            if i % step != (seed % step) and not (src == "c05" and c.get("F", 0) >= 1 and not c.get("dehb")):
                continue
            if src == "c04" and c["type"] == "pasha" and c["brackets"] > 1:
                continue
            c2 = dict(c)
            c2["max_states"] = 2500 if tier == "quick" else 7000
            out.append(("A", dict(src=src, cfg=c2, max_states=c2["max_states"])))
    for ki, kind in enumerate(["pbt", "dehb", "median", "moasha", "rea", "fifo-random", "fifo-grid", "hb-rush-stop", "hb-rush-prom", "hb-cost"]):
        for W in (1, 2, 3):
            if tier == "quick" and W != 2:
                continue
            out.append(("A", dict(src="generic", max_states=2500 if tier == "quick" else 7000,
                                  cfg=dict(kind=kind, seed=seed, R=3, W=W, T=4 if kind != "rea" else 5, F=0, mode="min"))))
    # long single-worker histories (no branching): DEHB beyond its first bracket (mutation / crossover / selection),
    # PBT and regularised evolution with a full population
    for kind, T in (("dehb", 14), ("pbt", 10), ("rea", 12), ("shb", 12)):
        for W in (1, 2):
            out.append(("A", dict(src="generic", max_states=1500 if tier == "quick" else 7000,
                                  cfg=dict(kind=kind, seed=seed, R=4 if kind in ("dehb", "shb") else 3, W=W, T=T, F=0, mode="min"))))
    # PBT with populations whose upper quantile holds two and three trials (the clone source is drawn by position in it)
    for pop, W, T in ((4, 4, 6), (4, 3, 6), (6, 6, 8)):
        out.append(("A", dict(src="generic", max_states=3000 if tier == "quick" else 9000,
                              cfg=dict(kind="pbt", seed=seed, R=3, W=W, T=T, F=0, mode="min", kw=dict(population_size=pop)))))
    # table enumeration: PASHA (levels 1, 3, 9; soft ranking with a learnt epsilon needs criss-crossing curves and three trials
    # in the top rung) and plain promotion on the same curves, one long single-worker history per table.
    # T=9: with 10 entries in a rung the 1/3-quantile position is 3.0 in one mode and 6.000000000000001 in the other (round-off
    # of a threshold against a metric value, which the property excludes)
    import itertools
    subsets = list(itertools.combinations(SPACED[:5] if tier == "quick" else SPACED, 3))
    goods = [(0, 2, 4)] if tier == "quick" else [(0, 2, 4), (1, 2, 5), (0, 1, 2)]
    for kind in ("hb-pasha", "hb-promotion"):
        for good in goods:
            for i in range(0, len(subsets), 2):
                out.append(("T", dict(kind=kind, T=9, R=27, seed=seed, good=list(good), kw=dict(reduction_factor=3),
                                      subsets=[list(v) for v in subsets[i:i + 2]])))
    for ki, kind in enumerate(["fifo-random", "hb-stopping", "hb-promotion", "median", "shb", "pbt", "moasha"]):
        for pi, prof in enumerate(tunerx.PROFILES):
            if (pi + ki + seed) % (8 if tier == "quick" else 2) != 0:
                continue
            out.append(("B", dict(kind=kind, variant="plain", extra=False, interval=1e9, W=2, R=3, seed=seed, profile=prof, F=1,
                                  stop={"max_num_trials_started": 4}, wait=True, k=1 if tier == "quick" else 2, mode="min",
                                  max_exec=160 if tier == "quick" else 1500)))
    return out


def run(tier, seed):
    res = Result()
    cfgs = configs(tier, seed)
    pruned = 0
    for cov, viols in pmap(task, cfgs):
        pruned += cov.extra.get("pruned_near_ties", 0)
        res.cov.merge(cov)
        res.violations.extend(viols)
    res.cov.extra["pruned_near_ties"] = pruned
    res.rule = ("Twin exploration: every event history (BFS, digest dedup on the pair of states) of the C03/C04/C05 worlds and of "
                "PBT / DEHB / median rule / MOASHA (mode list) / regularised evolution / FIFO / RUSH / cost-aware schedulers is executed "
                "on twin A (mode min, table f) and twin B (mode max, table -f) with equal seeds; every suggestion (start/resume, ids, "
                "configurations) and decision must be identical; branches where a reference threshold is within 1e-9 of a metric are "
                "pruned and counted. Tuner-level twins: the deviation-bounded choice tree of Tuner.run is enumerated on the min twin and "
                "replayed on the max twin: scheduler-call traces, status counters and Tuner.best_config must agree. Table enumeration: "
                "for PASHA (levels 1,3,9) and plain promotion every table of a family of criss-crossing learning curves (3 good of 9 "
                "trials, values from 3-subsets of an unequally spaced set, all 6^3 rank orders at epochs 1-3) on the single-worker history.")
    res.bounds = {"configs": len(cfgs), "tier": tier}
    res.assumptions = list(env.ASSUMPTIONS)
    return res


def replay(data):
    out = []
    if data.get("engine") == "tables":
        cfg = dict(data["cfg"])
        V, p1, p2, p3 = data["table"]
        tab = curve_table(cfg, V, p1, p2, p3)
        ea, ta = long_run(cfg, tab, "min")
        eb, tb = long_run(cfg, tab, "max")
        if ta != tb or ea != eb:
            out.append(Violation(PROP, "twin:trace-differs", f"min: {ta[-6:]} max: {tb[-6:]}"))
        return out
    if "history" in data:
        t = dict(src=data["cfg"]["src"], cfg=data["cfg"]["cfg"])
        w = build_twin(t)
        for ev in [tuple(e) for e in data["history"]]:
            obs, vs = w.step(ev)
            for k, what in vs:
                out.append(Violation(PROP, k, what))
    else:
        cfg = dict(data["cfg"])
        b, r, l = cfg["profile"].split("/")
        cfg["profile"] = dict(burst=b == "burst", rr=r == "rr", lag=l == "lag")
        cfg["max_exec"] = 2
        cfg["k"] = 0
        cov, viols = task_b(cfg)
        out = viols
    return out
