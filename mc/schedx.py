"""Engine A: explicit-state breadth-first search over the real scheduler API.

A *state* is the event history reaching it; the live scheduler is rebuilt by replaying
the history on a fresh object.  Histories are de-duplicated on a canonical digest of the
implementation's whole reachable object graph plus the driver's world state plus the
oracles' reference state.
"""
import hashlib
import logging
import traceback
from collections import deque
from datetime import datetime

import numpy as np
from sortedcontainers import SortedList

from . import env
from .core import Coverage, Violation

from syne_tune.backend.trial_status import Trial

# ----------------------------------------------------------------------------- digest

_SKIP_ATTR = {"_debug_log", "time_keeper", "_time_keeper", "cumulative_get_config_time",
              "cumulative_profile_record", "profiler", "_profiler"}


def canon(o, seen=None, skip=_SKIP_ATTR):
    """Canonical string of an object graph (sets/dicts sorted, loggers/clocks dropped)."""
    if seen is None:
        seen = {}
    if o is None or isinstance(o, (bool, int, float, str, bytes)):
        return repr(o)
    if isinstance(o, (np.floating, np.integer, np.bool_)):
        return repr(o.item())
    if isinstance(o, np.ndarray):
        return "nd" + str(o.shape) + hashlib.md5(np.ascontiguousarray(o).tobytes()).hexdigest()
    if isinstance(o, np.random.RandomState):
        st = o.get_state()
        return "rs" + hashlib.md5(st[1].tobytes()).hexdigest() + str(st[2:])
    if isinstance(o, datetime):
        return "dt"
    if isinstance(o, logging.Logger):
        return "log"
    if isinstance(o, type):
        return "ty:" + o.__qualname__
    i = id(o)
    if i in seen:
        return "@%d" % seen[i]
    if callable(o) and not hasattr(o, "__dict__"):
        return "fn:" + getattr(o, "__qualname__", type(o).__name__)
    seen[i] = len(seen)
    if isinstance(o, (list, tuple, SortedList, deque)):
        return "[" + ",".join(canon(x, seen, skip) for x in o) + "]"
    if isinstance(o, (set, frozenset)):
        return "{" + ",".join(sorted(canon(x, seen, skip) for x in o)) + "}"
    if isinstance(o, dict):
        return "{" + ",".join(sorted(canon(k, seen, skip) + ":" + canon(v, seen, skip) for k, v in o.items())) + "}"
    d = getattr(o, "__dict__", None)
    if d is None:
        sl = getattr(type(o), "__slots__", None)
        if sl:
            return type(o).__name__ + "(" + ",".join(
                k + "=" + canon(getattr(o, k, None), seen, skip) for k in sorted(sl)) + ")"
        return "obj:" + type(o).__name__
    if callable(o) and hasattr(o, "__code__"):
        return "fn:" + getattr(o, "__qualname__", "?")
    return type(o).__name__ + "(" + ",".join(
        k + "=" + canon(v, seen, skip) for k, v in sorted(d.items()) if k not in skip) + ")"


def digest_str(s: str) -> str:
    return hashlib.sha1(s.encode()).hexdigest()


# ------------------------------------------------------------------------------ world

RUN, PAUSED, STOPPED, DONE, FAILED = "run", "paused", "stopped", "done", "failed"


def exc_site(e: BaseException) -> str:
    tb = traceback.extract_tb(e.__traceback__)
    for fr in reversed(tb):
        if "/syne_tune/" in fr.filename:
            return fr.filename.split("/syne_tune/")[-1] + ":" + fr.name
    fr = tb[-1]
    return fr.filename.split("/")[-1] + ":" + fr.name


class World:
    """Drives one real scheduler exactly the way Tuner does (see protocol.TunerProtocol).

    spec keys:
      W workers, T max new trials, R levels per script (= max resource),
      table[t][r-1] metric of trial t at level r (list of lists, len >= T),
      cost[t][r-1] optional, metric, resource_attr, cost_attr,
      max_resource_attr (or None), scratch (bool: resumed runs restart at level 1 and
      re-report old levels with +rerun_eps), fail_budget, brackets (number of bracket
      choices at suggest, 0 = not applicable), extra_result (dict merged in every result),
      metrics (list of names for multi-objective: table then holds tuples)
    """

    def __init__(self, sched, spec, oracles=()):
        self.s = sched
        self.spec = spec
        self.oracles = list(oracles)
        self.W = spec["W"]
        self.T = spec["T"]
        self.R = spec["R"]
        self.table = spec["table"]
        self.metric = spec.get("metric", "m")
        self.resource_attr = spec.get("resource_attr", "epoch")
        self.max_resource_attr = spec.get("max_resource_attr")
        self.scratch = spec.get("scratch", False)
        self.fail_budget = spec.get("fail_budget", 0)
        self.nb = spec.get("brackets", 0)
        self.onehot = None
        if self.nb:
            self.onehot = env.OneHotBrackets(self.nb)
            sched.bracket_distribution = self.onehot
        self.trials = {}
        self.level = {}
        self.status = {}
        self.run_idx = {}
        self.run_end = {}
        self.last_dec = {}
        self.last_res = {}
        self.nfail = 0
        self.nrerep = 0
        self.dead = None  # (Violation-ish tuple) when an exception escaped
        self.trace = []   # observations

    # -- helpers
    def running(self):
        return [t for t, st in self.status.items() if st == RUN]

    def value(self, t, lvl):
        v = self.table[t - self.spec.get("id0", 0)][lvl - 1]
        if self.run_idx[t] > 0 and self.scratch and self.spec.get("rerun_eps"):
            if lvl <= self.resumed_from.get(t, 0):
                v = v + self.spec["rerun_eps"]
        return v

    resumed_from = None

    def result(self, t, lvl):
        res = {self.resource_attr: lvl}
        v = self.value(t, lvl)
        if self.spec.get("metrics"):
            pairs = list(zip(self.spec["metrics"], v))
            if self.spec.get("reverse_metric_keys"):
                pairs = pairs[::-1]      # the job writes its objectives in another order than the scheduler lists them
            for name, x in pairs:
                res[name] = x
        else:
            res[self.metric] = v
        if self.spec.get("cost") is not None:
            # cumulative cost table; a run reports the cost spent by *this* job
            row = self.spec["cost"][t - self.spec.get("id0", 0)]
            c = row[lvl - 1]
            r0 = self.resumed_from.get(t, 0) if self.run_idx[t] > 0 and not self.scratch else 0
            if r0 > 0:
                c = c - row[r0 - 1]
            res[self.spec.get("cost_attr", "cost")] = c
        res.update(self.spec.get("extra_result", {}))
        return res

    def script_end(self, t):
        cfg = self.trials[t].config
        if self.max_resource_attr and self.max_resource_attr in cfg:
            return min(int(cfg[self.max_resource_attr]), self.R)
        return self.R

    # -- alphabet
    def enabled(self):
        if self.dead:
            return []
        evs = []
        run = self.running()
        # a suggest can start a new trial (while fewer than T exist) or resume a paused one; otherwise it could only
        # produce a trial beyond the horizon, which is cut anyway
        can_suggest = len(self.trials) < self.T or any(st == PAUSED for st in self.status.values())
        if len(run) < self.W and can_suggest:
            if self.nb:
                evs += [("S", b) for b in range(self.nb)]
            else:
                evs.append(("S", None))
            if self.spec.get("flood") and len(self.trials) < self.T:
                # many workers asking for work before any result comes back: only suggests until T trials exist
                return evs
        order = sorted(run)
        if self.spec.get("newest_first") and order:
            order = order[-1:]   # one adversarial schedule: the most recently started job always reports first
        for t in order:
            if self.level[t] < self.script_end(t):
                evs.append(("R", t))
            elif self.last_dec.get(t) in (None, "CONTINUE") and self.last_res.get(t) is not None:
                evs.append(("C", t))
            if self.nfail < self.fail_budget:
                evs.append(("F", t))
            if self.nrerep < self.spec.get("rereport", 0) and self.level[t] >= 1 and self.last_dec.get(t) == "CONTINUE":
                evs.append(("X", t))   # the job reports its current level once more (e.g. after training and after validation)
        return evs

    # -- transitions
    def step(self, ev):
        """Apply one event; returns observation tuple. Sets self.dead on escaped exception."""
        if self.resumed_from is None:
            self.resumed_from = {}
        for o in self.oracles:
            o.before(self, ev)
        kind = ev[0]
        try:
            if kind == "S":
                obs = self._suggest(ev[1])
            elif kind == "R":
                obs = self._report(ev[1])
            elif kind == "X":
                self.nrerep += 1
                self.level[ev[1]] -= 1
                obs = self._report(ev[1])
            elif kind == "C":
                t = ev[1]
                self.s.on_trial_complete(self.trials[t], dict(self.last_res[t]))
                self.status[t] = DONE
                obs = ("complete", t)
            elif kind == "F":
                t = ev[1]
                self.s.on_trial_error(self.trials[t])
                self.status[t] = FAILED
                self.nfail += 1
                obs = ("error", t)
            else:
                raise ValueError(ev)
        except AssertionError as e:
            obs = ("EXC", "AssertionError", exc_site(e), str(e)[:200])
            self.dead = obs
        except Exception as e:  # escaped from a public scheduler call
            obs = ("EXC", type(e).__name__, exc_site(e), str(e)[:200])
            self.dead = obs
        self.trace.append(obs)
        viols = []
        if not self.dead:
            for o in self.oracles:
                r = o.after(self, ev, obs)
                if r:
                    viols.extend(r)
        return obs, viols

    def _suggest(self, b):
        if self.onehot is not None and b is not None:
            self.onehot.b = b
        new_id = self.spec.get("id0", 0) + len(self.trials)   # id0: trial ids crossing 9 -> 10 (string order != numeric order)
        sug = self.s.suggest(new_id)
        if sug is None:
            return ("suggest", "none")
        if sug.spawn_new_trial_id:
            if len(self.trials) >= self.T:
                return ("suggest", "over_T")
            cfg = dict(sug.config)
            tr = Trial(new_id, cfg, env.DT0)
            self.trials[new_id] = tr
            self.level[new_id] = 0
            self.status[new_id] = RUN
            self.run_idx[new_id] = 0
            self.last_dec[new_id] = None
            self.last_res[new_id] = None
            self.s.on_trial_add(tr)
            return ("suggest", "start", new_id, _freeze(cfg), sug.checkpoint_trial_id)
        t = sug.checkpoint_trial_id
        cfg = sug.config
        prev_status = self.status.get(t)
        if cfg is not None:
            self.trials[t] = Trial(t, dict(cfg), env.DT0)
        if prev_status == PAUSED:
            self.status[t] = RUN
            self.run_idx[t] += 1
            self.resumed_from[t] = self.level[t]
            if self.scratch:
                self.level[t] = 0
            self.last_dec[t] = None
        return ("suggest", "resume", t, None if cfg is None else _freeze(cfg), prev_status)

    def _report(self, t):
        self.level[t] += 1
        lvl = self.level[t]
        res = self.result(t, lvl)
        self.last_res[t] = dict(res)
        d = self.s.on_trial_result(self.trials[t], dict(res))
        self.last_dec[t] = d
        if d == "STOP":
            self.s.on_trial_remove(self.trials[t])
            self.status[t] = STOPPED
        elif d == "PAUSE":
            self.s.on_trial_remove(self.trials[t])
            self.status[t] = PAUSED
        return ("report", t, lvl, d)

    def world_digest(self):
        return repr((sorted(self.level.items()), sorted(self.status.items()), sorted(self.run_idx.items()),
                     sorted((k, v) for k, v in self.last_dec.items()), self.nfail, self.nrerep,
                     sorted((t, _freeze(tr.config)) for t, tr in self.trials.items())))

    def digest(self):
        parts = [canon(self.s), self.world_digest()]
        for o in self.oracles:
            parts.append(o.digest())
        return digest_str("|".join(parts))


def _freeze(cfg):
    return tuple(sorted((k, repr(v)) for k, v in cfg.items()))


class Oracle:
    def before(self, world, ev):
        pass

    def after(self, world, ev, obs):
        return []

    def digest(self):
        return ""


# --------------------------------------------------------------------------- explorer

def replay(build, hist):
    w = build()
    viols = []
    for ev in hist:
        if ev not in w.enabled():
            raise RuntimeError(f"replay diverged: event {ev} not enabled after {w.trace}")
        obs, v = w.step(ev)
        viols = v
    return w, viols


def explore(build, prop, cfg_label, max_depth=None, max_states=None, exc_policy="violation",
            dedup=True, on_state=None, want_samples=2, ctx=""):
    """Breadth-first search. `build()` -> fresh World with oracles.

    Returns (Coverage, [Violation]).  Exceptions escaping a public scheduler call under a
    protocol-legal sequence are violations of `prop` (exc_policy='violation').
    """
    cov = Coverage()
    viols = []
    vkeys = set()
    w0 = build()
    seen = {w0.digest()}
    frontier = deque([()])
    cov.add("states")
    depth_reached = 0
    sampled = set()
    while frontier:
        hist = frontier.popleft()
        if max_depth is not None and len(hist) >= max_depth:
            cov.cap(f"depth {max_depth} ({cfg_label})")
            continue
        w, _ = replay(build, hist)
        cov.add("traces_validated_against_impl")
        evs = w.enabled()
        if not evs:
            cov.outcome("terminal:" + ",".join(sorted(set(w.status.values()))))
            if len(cov.samples) < want_samples:
                cov.sample({"cfg": cfg_label, "history": [list(e) for e in hist], "trace": [list(map(str, o)) for o in w.trace]})
            continue
        for i, ev in enumerate(evs):
            if i == len(evs) - 1:
                w2 = w  # reuse the parent object for the last child
            else:
                w2, _ = replay(build, hist)
            obs, vs = w2.step(ev)
            cov.add("transitions")
            h2 = hist + (ev,)
            depth_reached = max(depth_reached, len(h2))
            if obs[0] == "EXC":
                cov.outcome("exception:" + obs[1])
                if exc_policy == "violation":
                    key = f"exc:{obs[1]}@{obs[2]}"
                    vs = vs + [(key, f"{obs[1]} escaped {obs[2]} after {len(h2)} protocol-legal events: {obs[3]}")]
            else:
                cov.outcome(obs[0] if obs[0] in ("error", "complete") else ":".join(str(x) for x in (obs[:2] if obs[0] == "suggest" else (obs[0], obs[-1]))))
            if vs:
                for key, what in vs:
                    key = f"{ctx}|{key}" if ctx else key
                    if key not in vkeys:
                        vkeys.add(key)
                        viols.append(Violation(prop, key, what, {"engine": "schedx", "cfg": cfg_label,
                                                                "history": [list(e) for e in h2]}))
                continue  # do not expand past a violation
            if obs[0] == "suggest" and obs[1] == "over_T":
                cov.extra["cut_over_T"] = cov.extra.get("cut_over_T", 0) + 1
                continue
            if len(h2) in (6, 12) and len(h2) not in sampled and len(cov.samples) < want_samples:
                sampled.add(len(h2))
                cov.sample({"cfg": cfg_label, "history": [list(e) for e in h2],
                            "trace": [list(map(str, o)) for o in w2.trace]})
            if on_state is not None:
                extra = on_state(w2, h2)
                if extra:
                    for key, what in extra:
                        key = f"{ctx}|{key}" if ctx else key
                        if key not in vkeys:
                            vkeys.add(key)
                            viols.append(Violation(prop, key, what, {"engine": "schedx", "cfg": cfg_label,
                                                                    "history": [list(e) for e in h2]}))
                    continue
            if dedup:
                k = w2.digest()
                if k in seen:
                    continue
                seen.add(k)
            cov.add("states")
            if max_states is not None and cov.c["states"] >= max_states:
                cov.cap(f"states {max_states} ({cfg_label})")
                frontier.clear()
                break
            frontier.append(h2)
    cov.extra["max_depth_reached"] = max(cov.extra.get("max_depth_reached", 0), depth_reached)
    return cov, viols
