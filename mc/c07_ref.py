"""Reference side of C07 (no syne_tune import in the oracle part).

* domain *specs* (JSON-able lists ``[ctor, *args]``) and the parameter lattice,
* the membership oracle written from the constructor arguments only,
* input lattices (answer alphabet of the stub RNG, unit-cube lattice, member lattice),
* the stub ``random_state``.

Spec forms
    ["uniform"|"loguniform"|"reverseloguniform"|"randint"|"lograndint", lo, hi]
    ["quniform"|"qloguniform"|"qrandint"|"qlograndint", lo, hi, q]
    ["choice", [categories]]
    ["ordinal", [categories], "equal"|"nn"|"nn-log"]
    ["finrange"|"logfinrange", lo, hi, size, cast_int]
"""
import itertools
import math

import numpy as np

EPS = 1e-8      # same constant the lattice of DESIGN C07 names (margin of the integer encoding)
DELTA = 1e-12   # offset around rounding-cell boundaries

FLOAT_CTORS = ("uniform", "loguniform", "reverseloguniform", "quniform", "qloguniform")
INT_CTORS = ("randint", "lograndint", "qrandint", "qlograndint")
QUANT_CTORS = ("quniform", "qloguniform", "qrandint", "qlograndint")
CAT_CTORS = ("choice", "ordinal")
FIN_CTORS = ("finrange", "logfinrange")
LOG_CTORS = ("loguniform", "lograndint", "qloguniform", "qlograndint", "logfinrange")


# ------------------------------------------------------------------ spec helpers

def norm(spec):
    """JSON lists -> canonical nested tuples (hashable)."""
    if isinstance(spec, (list, tuple)):
        return tuple(norm(x) for x in spec)
    return spec


def as_json(spec):
    if isinstance(spec, (list, tuple)):
        return [as_json(x) for x in spec]
    return spec


def label(spec):
    c = spec[0]
    if c == "ordinal":
        return "ordinal-" + spec[2]
    if c in FIN_CTORS:
        return c + ("-int" if spec[4] else "")
    return c


def transform(spec):
    c = spec[0]
    if c in LOG_CTORS or (c == "ordinal" and spec[2] == "nn-log"):
        return "log"
    if c == "reverseloguniform":
        return "revlog"
    return "lin"


def q_divides(spec):
    """Docstring-free legality note for quantised integer domains: does q divide both bounds?"""
    lo, hi, q = spec[1], spec[2], spec[3]
    return lo % q == 0 and hi % q == 0


def float_q_legal(lo, hi, q):
    """Float.quantized documents (by its ValueError) that both bounds must be divisible by q.  Legal here =
    divisible up to 1e-9 *absolute* on the quotient (so 2**40 is not "divisible" by 3, although the
    implementation's relative isclose lets it pass) and accepted by the implementation's own isclose test."""
    for b in (lo, hi):
        r = b / q
        if abs(r - round(r)) > 1e-9 or not math.isclose(r, round(r)):
            return False
    return True


def fin_legal(ctor, lo, hi, size, cast_int):
    """log-scaled domains require positive values (docstrings); with cast_int the smallest value is
    round(lower), so logfinrange(..., cast_int=True) with round(lower) == 0 is not a legal input."""
    if ctor == "logfinrange":
        if not lo > 0:
            return False
        if cast_int and lo < 0.5 + 1e-9:
            return False
    return True


def tags(spec):
    c = spec[0]
    t = []
    if c in FLOAT_CTORS or c in INT_CTORS or c in FIN_CTORS:
        if spec[1] == spec[2]:
            t.append("degenerate")
    if c in ("qrandint", "qlograndint") and not q_divides(spec):
        t.append("q-not-dividing-bounds")
    if c in INT_CTORS and float(np.spacing(max(abs(spec[1]), abs(spec[2])) + 0.5)) > EPS:
        t.append("beyond-eps-resolution")  # the 1e-8 margin of the integer encoding is below one ulp here
    if c in CAT_CTORS and len(spec[1]) == 1:
        t.append("single-category")
    if c in FIN_CTORS and spec[3] == 1:
        t.append("size1")
    return t


TAGSET = ("degenerate", "q-not-dividing-bounds", "beyond-eps-resolution", "single-category", "size1")


def key(clause, spec, reason):
    """raw key 'clause:label:reason|tag,tag' ; see collapse_keys for the reported form"""
    return ":".join([clause, label(spec), reason]) + "|" + ",".join(tags(spec))


def final_key(raw, keep_tags=None):
    base, _, t = raw.partition("|")
    t = [x for x in t.split(",") if x]
    if keep_tags is not None:
        t = [x for x in t if x in keep_tags]
    return ":".join([base] + t)


def collapse_keys(raw_keys):
    """Map raw keys to minimal structural keys: if a failure 'base' also occurs for a domain without any
    special tag, the tags are not part of the minimal pattern and every variant is reported as 'base';
    otherwise only the minimal tag sets are kept (a variant whose tags are a strict superset of another
    variant's is mapped onto that one)."""
    groups = {}
    for rk in raw_keys:
        base, _, t = rk.partition("|")
        groups.setdefault(base, set()).add(frozenset(x for x in t.split(",") if x))
    out = {}
    for rk in raw_keys:
        base, _, t = rk.partition("|")
        ts = frozenset(x for x in t.split(",") if x)
        cands = [o for o in groups[base] if o <= ts]
        best = min(cands, key=lambda o: (len(o), sorted(o)))
        out[rk] = ":".join([base] + [x for x in TAGSET if x in best])
    return out


def is_degenerate(spec):
    """Domain with a single member (trivial case for the distinct_nontrivial counter)."""
    c = spec[0]
    if c in CAT_CTORS:
        return len(spec[1]) == 1
    if c in FIN_CTORS:
        return spec[3] == 1 or spec[1] == spec[2]
    return spec[1] == spec[2]


def enc_size(spec):
    """Advertised length of the encoding: one-hot for choice with != 2 categories, else 1."""
    if spec[0] == "choice" and len(spec[1]) != 2:
        return len(spec[1])
    return 1


def is_continuous(spec):
    return spec[0] in FLOAT_CTORS


# ----------------------------------------------------------- reference value lists

def fin_values(spec):
    """Real-valued grid of finrange/logfinrange from the constructor arguments."""
    _, lo, hi, size, _ = spec
    if size == 1:
        return [float(lo)]
    if spec[0] == "finrange":
        return [lo + i * (hi - lo) / (size - 1) for i in range(size)]
    a, b = math.log(lo), math.log(hi)
    return [math.exp(a + i * (b - a) / (size - 1)) for i in range(size)]


def ulps(a, b):
    """|a-b| in units of the spacing at b (inf if huge)."""
    if a == b:
        return 0.0
    sp = float(np.spacing(abs(float(b)))) or 5e-324
    return abs(float(a) - float(b)) / sp


def _typename(v):
    return type(v).__module__.split(".")[0] + "." + type(v).__name__ if type(v).__module__ != "builtins" \
        else type(v).__name__


def member(spec, v):
    """None if ``v`` is a member of the domain described by ``spec``, else a short reason code.

    Written from the constructor arguments only:
      float domains  : a ``float`` (subclasses such as numpy.float64 accepted) with lower <= v <= upper
      integer domains: an ``int`` (not bool) with lower <= v <= upper
      choice/ordinal : equal to a listed category and of the same type
      finrange       : float in [lower, upper] within 1e-9 (relative to the range) of a grid point;
                       cast_int: an ``int`` within 0.5 (+1e-9) of a grid point (either rounding of .5 accepted)
    Quantisation is *not* part of membership (it is a separate clause of the sampling check).
    """
    c = spec[0]
    if c in FLOAT_CTORS:
        if isinstance(v, bool) or not isinstance(v, float):
            return "wrong-type-" + _typename(v)
        lo, hi = spec[1], spec[2]
        if v != v:
            return "nan"
        if v < lo:
            return "below-lower-by-roundoff" if abs(v - lo) <= 1e-12 * abs(lo) else "below-lower"
        if v > hi:
            return "above-upper-by-roundoff" if abs(v - hi) <= 1e-12 * abs(hi) else "above-upper"
        return None
    if c in INT_CTORS:
        if isinstance(v, bool) or not isinstance(v, int):
            return "wrong-type-" + _typename(v)
        if v < spec[1]:
            return "below-lower"
        if v > spec[2]:
            return "above-upper"
        return None
    if c in CAT_CTORS:
        cats = spec[1]
        for x in cats:
            if type(x) is type(v) and x == v:
                return None
        for x in cats:
            try:
                if x == v:
                    return "wrong-type-" + _typename(v)
            except Exception:
                pass
        return "not-listed"
    if c in FIN_CTORS:
        _, lo, hi, size, cast_int = spec
        grid = fin_values(spec)
        scale = max(abs(lo), abs(hi))
        if cast_int:
            if isinstance(v, bool) or not isinstance(v, int):
                return "wrong-type-" + _typename(v)
            for y in grid:
                if abs(v - y) <= 0.5 + 1e-9 * max(1.0, scale):
                    return None
            return "not-listed"
        if isinstance(v, bool) or not isinstance(v, float):
            return "wrong-type-" + _typename(v)
        if v < lo:
            return "below-lower"
        if v > hi:
            return "above-upper"
        for y in grid:
            if abs(v - y) <= 1e-9 * max(scale, 1e-300):
                return None
        return "not-listed"
    raise ValueError(spec)


def member_active(spec, aspec, v):
    """Membership in the active sub-range ``aspec`` of ``spec`` for a *decoded* value.  The active bounds
    live in encoded space (to_ndarray(active_lower/upper)), so for continuous domains the sub-range is
    met up to the round-trip tolerance of the property (relative 1e-7, see same_value); exact otherwise."""
    if not is_continuous(spec):
        return member(aspec, v)
    r = member(spec, v)
    if r:
        return r
    al, au = float(aspec[1]), float(aspec[2])
    if transform(spec) == "log":
        tl, tu = 1e-7 * abs(al), 1e-7 * abs(au)
    else:
        tl = tu = 1e-7 * max(abs(v), abs(spec[1]), abs(spec[2]))
    if v < al - tl:
        return "below-lower"
    if v > au + tu:
        return "above-upper"
    return None


def is_multiple_of_q(v, q):
    r = v / q
    return abs(r - round(r)) <= 1e-9 * max(1.0, abs(r))


def same_value(spec, a, b):
    """Round-trip equality: exact (and same type) for finite/integer domains, relative 1e-7 for continuous.

    'relative' is taken w.r.t. the value for log-scaled domains and w.r.t. the largest magnitude of
    {value, lower, upper} for linearly/reverse-log scaled ones (cancellation in value-lower is floating
    point, not a defect).
    """
    if is_continuous(spec):
        if isinstance(a, bool) or isinstance(b, bool):
            return False
        try:
            a, b = float(a), float(b)
        except Exception:
            return False
        if transform(spec) == "log":
            scale = abs(a)
        else:
            scale = max(abs(a), abs(spec[1]), abs(spec[2]))
        return abs(a - b) <= 1e-7 * scale
    return type(a) is type(b) and a == b


# ------------------------------------------------------------------ lattices

def _dedup(seq):
    out, seen = [], set()
    for x in seq:
        k = (type(x).__name__, repr(x))
        if k not in seen:
            seen.add(k)
            out.append(x)
    return out


def int_points(lo, hi, cap=24):
    """All integers of [lo, hi] when there are at most ``cap``, else a 9+ point lattice (ends, near ends,
    middle, geometric middle)."""
    if hi - lo + 1 <= cap:
        return list(range(lo, hi + 1))
    mid = (lo + hi) // 2
    pts = [lo, lo + 1, lo + 2, mid - 1, mid, mid + 1, hi - 2, hi - 1, hi]
    if lo > 0:
        g = int(round(math.sqrt(lo * hi)))
        pts += [g, g + 1]
    return sorted(set(p for p in pts if lo <= p <= hi))


def float_points(lo, hi, log=False):
    lo_f, hi_f = float(lo), float(hi)
    if lo_f == hi_f:
        return [lo_f]
    pts = [lo_f, float(np.nextafter(lo_f, hi_f))]
    pts += [lo_f + (hi_f - lo_f) * k / 8.0 for k in range(1, 8)]
    if log and lo_f > 0:
        pts += [math.sqrt(lo_f) * math.sqrt(hi_f), lo_f * 1.5 if lo_f * 1.5 < hi_f else lo_f]
    pts += [float(np.nextafter(hi_f, lo_f)), hi_f]
    return _dedup(p for p in pts if lo_f <= p <= hi_f)


def members(spec, impl_values=None, reduced=False):
    """Member lattice used as input for cast / encode (every member of small finite domains).

    For finrange the implementation's own value list is used *after* each entry passed ``member``
    (the caller checks that), because exact round trips need the exact objects.
    """
    c = spec[0]
    if c in CAT_CTORS:
        out = list(spec[1])
    elif c in FIN_CTORS:
        out = list(impl_values if impl_values is not None else [])
    elif c in ("quniform", "qloguniform"):
        lo, hi, q = spec[1], spec[2], spec[3]
        k0, k1 = int(math.ceil(lo / q - 1e-9)), int(math.floor(hi / q + 1e-9))
        ks = int_points(k0, k1, cap=12) if k0 <= k1 else []
        out = [float(k * q) for k in ks]
        out = [v for v in out if lo <= v <= hi]
    elif c in ("qrandint", "qlograndint"):
        lo, hi, q = spec[1], spec[2], spec[3]
        k0, k1 = -((-lo) // q), hi // q
        ks = int_points(k0, k1, cap=12) if k0 <= k1 else []
        out = [k * q for k in ks]
    elif c in INT_CTORS:
        out = int_points(spec[1], spec[2])
    else:
        out = float_points(spec[1], spec[2], log=(transform(spec) == "log"))
    if reduced and len(out) > 3:
        out = [out[0], out[len(out) // 2], out[-1]]
    return out


def _T(kind, x):
    if kind == "log":
        return math.log(x)
    if kind == "revlog":
        return -math.log1p(-x)
    return x


def int_cell_boundaries(lo, hi, kind):
    """Positions in [0,1] of the rounding-cell boundaries j+0.5 of an integer range encoded as the
    continuous interval [lo-0.5+EPS, hi+0.5-EPS] under transform ``kind``."""
    if hi == lo:
        return []
    a, b = _T(kind, lo - 0.5 + EPS), _T(kind, hi + 0.5 - EPS)
    n = hi - lo
    js = range(lo, hi) if n <= 12 else sorted(set([lo, lo + 1, lo + 2, lo + 3, (lo + hi) // 2,
                                                    hi - 4, hi - 3, hi - 2, hi - 1]))
    return [(_T(kind, j + 0.5) - a) / (b - a) for j in js]


def _around(bs):
    out = []
    for x in bs:
        for d in (-DELTA, 0.0, DELTA):
            y = x + d
            if 0.0 <= y <= 1.0:
                out.append(y)
    return out


BASE_1D = [0.0, EPS, 0.5, 1.0 - EPS, 1.0]


def unit_lattice(spec, reduced=False, fine=False):
    """List of encoded vectors (lists of floats of length enc_size) for the decode check.
    reduced: 5 vectors per domain (spaces of several domains); fine: j/64 instead of j/8 (thorough tier)."""
    c = spec[0]
    k = enc_size(spec)
    if k != 1 or (c == "choice" and len(spec[1]) == 1):
        if reduced:
            vs = [[0.0] * k, [1.0] + [0.0] * (k - 1), [0.0] * (k - 1) + [1.0], [0.5] * k, [1.0] * k]
            return [list(v) for v in _dedup(tuple(v) for v in vs)]
        return [list(v) for v in itertools.product([0.0, 0.5, 1.0], repeat=k)]
    if reduced:
        return [[x] for x in BASE_1D]
    pts = list(BASE_1D)
    kind = transform(spec)
    if c in INT_CTORS:
        pts += _around(int_cell_boundaries(spec[1], spec[2], kind))
    elif c in FIN_CTORS:
        pts += _around(int_cell_boundaries(0, spec[3] - 1, "lin"))
    elif c == "choice":  # binary
        pts += _around(int_cell_boundaries(0, 1, "lin"))
    elif c == "ordinal" and spec[2] == "equal":
        pts += _around(int_cell_boundaries(0, len(spec[1]) - 1, "lin"))
    elif c == "ordinal":
        cats = [_T(kind, float(x)) for x in spec[1]]
        if len(cats) > 1:
            avg = 0.5 * (cats[-1] - cats[0]) / (len(cats) - 1)
            a, b = cats[0] - avg, cats[-1] + avg
            mids = [0.5 * (u + v) for u, v in zip(cats[:-1], cats[1:])]
            pts += _around([(m - a) / (b - a) for m in mids])
            pts += [(x - a) / (b - a) for x in cats]
    m = 64 if fine else 8
    pts += [j / float(m) for j in range(1, m)]
    return [[x] for x in sorted(set(pts))]


def active_subspecs(spec, reduced=False):
    """Legal active sub-ranges: same constructor, bounds/categories inside the original ones
    (contiguous subsequences for ordinals, non-empty subsets for choice). FiniteRange is excluded by the
    implementation's documented assertion; quantised domains are encoded as their base type and are left out."""
    c = spec[0]
    out = []
    if c in FIN_CTORS or c in QUANT_CTORS:
        return out
    if c == "choice":
        cats = spec[1]
        for r in range(1, len(cats) + 1):
            for idx in itertools.combinations(range(len(cats)), r):
                out.append(["choice", [cats[i] for i in idx]])
    elif c == "ordinal":
        cats = spec[1]
        for i in range(len(cats)):
            for j in range(i, len(cats)):
                out.append(["ordinal", list(cats[i:j + 1]), spec[2]])
    elif c in INT_CTORS:
        lo, hi = spec[1], spec[2]
        pts = sorted(set(p for p in (lo, lo + 1, lo + 3, (lo + hi) // 2, hi - 2, hi - 1, hi) if lo <= p <= hi))
        out = [[c, a, b] for a in pts for b in pts if a <= b]
    else:
        lo, hi = spec[1], spec[2]
        if lo == hi:
            pts = [lo]
        else:
            fl, fh = float(lo), float(hi)
            pts = [lo, fl + (fh - fl) * 0.25, fl + (fh - fl) * 0.5, float(np.nextafter(fh, fl)), hi]
            if transform(spec) == "log":
                pts.append(math.sqrt(fl) * math.sqrt(fh))
            pts = sorted(_dedup(p for p in pts if lo <= p <= hi))
        out = [[c, a, b] for a in pts for b in pts if a <= b]
    if reduced and len(out) > 3:
        out = [out[0], out[len(out) // 2], out[-2]]
    return out


# ------------------------------------------------------------------ stub RNG

def alpha_uniform(lo, hi):
    lo, hi = float(lo), float(hi)
    if lo == hi:
        return [lo]
    return [lo, float(np.nextafter(lo, hi)), 0.5 * lo + 0.5 * hi, float(np.nextafter(hi, lo)), hi]


def alpha_randint(lo, hi_excl):
    n = hi_excl - lo
    if n <= 8:
        return list(range(lo, hi_excl))
    return [lo, lo + 1, lo + n // 2, hi_excl - 2, hi_excl - 1]


class StubRS:
    """random_state whose uniform/randint/choice return chosen points of a small answer alphabet.

    ``picks[i]`` selects the alphabet entry for position i of the returned array (clamped to the alphabet
    length); ``K`` records the largest alphabet seen so that the driver can enumerate all picks.
    uniform: {low, nextafter(low), mid, nextafter(high,low), high} (numpy documents that ``high`` can be
    returned through rounding); randint/choice: every value when <= 8, else ends/near-ends/middle.
    """

    def __init__(self, picks):
        self.picks = tuple(picks)
        self.K = 0
        self.calls = []

    def _take(self, alpha, size):
        self.K = max(self.K, len(alpha))
        n = 1 if size is None else int(size)
        picks = self.picks if len(self.picks) == n else tuple(self.picks[i % len(self.picks)] for i in range(n))
        vals = [alpha[min(p, len(alpha) - 1)] for p in picks]
        return vals

    def uniform(self, low=0.0, high=1.0, size=None):
        self.calls.append(("uniform", low, high))
        vals = self._take(alpha_uniform(low, high), size)
        return vals[0] if size is None else np.array(vals, dtype=float)

    def randint(self, low, high=None, size=None):
        if high is None:
            low, high = 0, low
        self.calls.append(("randint", low, high))
        vals = self._take(alpha_randint(int(low), int(high)), size)
        return vals[0] if size is None else np.array(vals, dtype=np.int64)

    def choice(self, a, size=None):
        n = int(a) if not hasattr(a, "__len__") else len(a)
        self.calls.append(("choice", n))
        vals = self._take(list(range(n)), size)
        if hasattr(a, "__len__"):
            vals = [a[i] for i in vals]
        return vals[0] if size is None else np.array(vals)


# ------------------------------------------------------------ parameter lattice

STR_CATS = [["a"], ["a", "b"], ["a", "b", "c"], ["b", "a", "d", "c"]]
INT_CATS_INC = [[5], [1, 2], [1, 2, 3], [1, 2, 5, 10], [-2, 0, 7]]
INT_CATS_UNS = [[3, 1, 2]]
FLT_CATS_INC = [[0.5], [0.1, 1.0], [0.1, 1.0, 10.0], [0.001, 0.01, 0.1, 1.0], [0.5, 1.0, 1.5, 2.0],
                [-1.0, 0.0, 2.5]]
FLT_CATS_UNS = [[1.0, 0.1]]


def lattice(tier):
    """quick = the lattice named in DESIGN C07 (+ negative bounds and int/float literal twins);
    thorough adds irregular values, the 2**26 / 2**31 region, more sizes and quantisation steps."""
    L = {}
    L["fb"] = [-3, -1, 0, 0.0, 1e-8, 0.1, 0.3, 0.5, 1, 1.0, 3, 3.0, 7, 10, 1000, 2 ** 20, 2 ** 40]
    L["ib"] = [-3, -1, 0, 1, 3, 7, 10, 1000, 2 ** 20, 2 ** 40]
    L["rb"] = [0, 0.0, 1e-8, 0.1, 0.5, 0.999]
    L["sizes"] = [1, 2, 3, 7]
    L["qf"] = [1, 2, 3, 4, 0.25, 0.1]
    L["qi"] = [1, 2, 3, 4]
    if tier != "quick":
        L["fb"] = sorted(L["fb"] + [1e-5, 1e-3, 1.0 / 3.0, 0.7, 2, 5, 17, 100, 123.456, 1e6, 2 ** 26, 2 ** 31],
                         key=float)
        L["ib"] = sorted(L["ib"] + [2, 5, 17, 64, 100, 65536, 2 ** 26, 2 ** 31])
        L["rb"] = L["rb"] + [0.9, 1 - 1e-8]
        L["sizes"] = [1, 2, 3, 4, 5, 7, 10, 20, 50]
        L["qf"] = [1, 2, 3, 4, 5, 0.25, 0.5, 0.1]
        L["qi"] = [1, 2, 3, 4, 5, 7]
    return L


def _pairs(vals):
    """All legal (lower <= upper) pairs incl. lower == upper; equal numbers of different literal type
    (3 vs 3.0) are kept as distinct lattice points."""
    out = []
    for i, a in enumerate(vals):
        for j, b in enumerate(vals):
            if a < b or (a == b and i <= j):
                out.append((a, b))
    return out


def category_lists(tier):
    inc_i, inc_f = list(INT_CATS_INC), list(FLT_CATS_INC)
    strs, uns = list(STR_CATS), INT_CATS_UNS + FLT_CATS_UNS
    if tier != "quick":
        inc_i += [[1, 2, 5, 10, 20, 50], [8, 16, 32, 64, 128]]
        inc_f += [[0.0005, 0.001, 0.005, 0.01, 0.05, 0.1], [1.0, 1.0000001, 1.0000002], [0.25, 0.5, 1.0, 2.0, 4.0]]
        strs += [["e", "d", "c", "b", "a"]]
    return strs, inc_i, inc_f, uns


def all_specs(tier):
    L = lattice(tier)
    specs = []
    fb, ib = L["fb"], L["ib"]
    for lo, hi in _pairs(fb):
        specs.append(["uniform", lo, hi])
        if lo > 0:
            specs.append(["loguniform", lo, hi])
        for q in L["qf"]:
            if float_q_legal(lo, hi, q):
                specs.append(["quniform", lo, hi, q])
                if lo > 0:
                    specs.append(["qloguniform", lo, hi, q])
        for size in L["sizes"]:
            for ci in (False, True):
                specs.append(["finrange", lo, hi, size, ci])
                if fin_legal("logfinrange", lo, hi, size, ci):
                    specs.append(["logfinrange", lo, hi, size, ci])
    for lo, hi in _pairs(L["rb"]):
        specs.append(["reverseloguniform", lo, hi])
    for lo, hi in _pairs(ib):
        specs.append(["randint", lo, hi])
        if lo > 0:
            specs.append(["lograndint", lo, hi])
        for q in L["qi"]:
            specs.append(["qrandint", lo, hi, q])
            if lo > 0:
                specs.append(["qlograndint", lo, hi, q])
    strs, inc_i, inc_f, uns = category_lists(tier)
    for cats in strs + inc_i + inc_f + uns:
        specs.append(["choice", cats])
        specs.append(["ordinal", cats, "equal"])
    for cats in inc_i + inc_f:
        specs.append(["ordinal", cats, "nn"])
        if cats[0] > 0:
            specs.append(["ordinal", cats, "nn-log"])
    return specs


# representatives (one or two per constructor kind) for spaces of 2-3 domains
REPS = [
    ["uniform", 0, 1],
    ["uniform", -1, 3.0],
    ["uniform", 3.0, 3.0],
    ["loguniform", 1e-8, 1000],
    ["reverseloguniform", 0.1, 0.999],
    ["randint", 0, 7],
    ["randint", 3, 3],
    ["lograndint", 1, 1000],
    ["quniform", 0, 1, 0.25],
    ["qrandint", 0, 8, 4],
    ["choice", ["a", "b", "c"]],
    ["choice", [1, 2]],
    ["choice", ["a"]],
    ["ordinal", ["a", "b", "c"], "equal"],
    ["ordinal", [1, 2, 5], "nn"],
    ["ordinal", [0.1, 1.0, 10.0], "nn-log"],
    ["finrange", 0.1, 1, 7, False],
    ["logfinrange", 8, 64, 4, True],
]
