"""Post-hoc monitors over the unified event log of one real Tuner.run execution (Engine B)."""
from .protocol import TunerProtocol

TERMINAL = ("stopped", "completed", "failed")


def lifecycle(ex, n_workers, allow_exc=()):
    """C01: ids in sequence, legal status path, occupancy, call protocol. -> [(key, what)]"""
    v = []
    log = ex.log
    state = {}          # trial -> none/running/paused/stopped/completed/failed (ground truth + tuner actions)
    n_new = 0
    runs = {}           # (t, r) -> dict
    cur_run = {}        # t -> r
    added = {}
    last_resume_suggest = set()
    proto = TunerProtocol()
    in_stop_all = False
    npoll = 0
    tuning_ended = False
    states_seen = set()

    def run_of(t):
        return runs.get((t, cur_run.get(t)))

    for idx, e in enumerate(log):
        k = e[0]
        if k == "schedule":
            _, t, r, start, end, occ, has_ckpt, deleted = e
            if r == 0:
                if t != n_new:
                    v.append(("ids:not-sequential", f"new trial got id {t}, expected {n_new}"))
                if t in state:
                    v.append(("ids:issued-twice", f"trial id {t} issued twice"))
                n_new += 1
            else:
                if state.get(t) != "resuming":
                    v.append((f"lifecycle:rerun-from-{state.get(t)}", f"trial {t} scheduled again (run {r}) from state {state.get(t)}"))
            if occ + 1 > n_workers:
                v.append(("occupancy:over-budget", f"trial {t} run {r} scheduled while {occ} of {n_workers} workers are occupied"))
            state[t] = "running"
            cur_run[t] = r
            runs[(t, r)] = dict(decided=None, ended=None, notes=[], results=[], after_end_results=0, start_level=start)
        elif k == "resume":
            t = e[1]
            if state.get(t) != "paused":
                v.append((f"lifecycle:resume-from-{state.get(t)}", f"trial {t} resumed from state {state.get(t)}"))
            if t not in last_resume_suggest:
                v.append(("lifecycle:resume-not-suggested", f"backend resumed trial {t} without a scheduler resume suggestion"))
            last_resume_suggest.discard(t)
            state[t] = "resuming"
        elif k in ("pause", "stop"):
            t = e[1]
            st = state.get(t)
            ru0 = run_of(t)
            same_poll = ru0 is not None and ru0.get("ended_poll") == npoll
            if (st in TERMINAL and not same_poll) or st == "paused":
                # (a natural end in the very poll whose result got the decision is overridden by the decision)
                if not in_stop_all:
                    v.append((f"lifecycle:{k}-from-{st}", f"trial {t} moved {st} -> {'paused' if k == 'pause' else 'stopped'}"))
            state[t] = "paused" if k == "pause" else "stopped"
            ru = run_of(t)
            if ru is not None and ru["ended"] is None:
                ru["ended"] = "decision" if not in_stop_all else "stop_all"
        elif k in ("exit", "crash", "ext_stop"):
            t = e[1]
            state[t] = {"exit": "completed", "crash": "failed", "ext_stop": "stopped"}[k]
            ru = run_of(t)
            if ru is not None:
                ru["ended"] = k
                ru["ended_poll"] = npoll
        elif k == "poll":
            npoll = e[1]
        elif k == "stop_all":
            in_stop_all = True
        elif k == "tuning_end":
            tuning_ended = True
        elif k == "suggest":
            proto.feed(e)
            if e[1] == "resume":
                last_resume_suggest.add(e[2])
        elif k == "on_trial_add":
            proto.feed(e)
            t = e[1]
            added[t] = added.get(t, 0) + 1
            if added[t] > 1:
                v.append(("protocol:add-twice", f"on_trial_add called {added[t]} times for trial {t}"))
            if t not in state:
                v.append(("protocol:add-before-start", f"on_trial_add for trial {t} before it was started"))
        elif k == "on_trial_result":
            proto.feed(e)
            t, res, dec = e[1], e[2], e[3]
            ru = run_of(t)
            if t not in added:
                v.append(("protocol:result-before-add", f"result of trial {t} delivered before on_trial_add"))
            if ru is None:
                v.append(("protocol:result-unknown-trial", f"result for trial {t} which never started"))
                continue
            if ru["notes"]:
                v.append((f"protocol:result-after-{ru['notes'][-1]}", f"trial {t}: on_trial_result after end notification {ru['notes']}"))
            ru["results"].append((res, dec))
            if dec in ("STOP", "PAUSE"):
                ru["decided"] = dec
        elif k in ("on_trial_remove", "on_trial_complete", "on_trial_error"):
            proto.feed(e)
            t = e[1]
            ru = run_of(t)
            if ru is None:
                v.append(("protocol:end-unknown-trial", f"{k} for trial {t} which never started"))
                continue
            ru["notes"].append(k.replace("on_trial_", ""))
        elif k == "loop_end":
            states_seen.add((tuple(sorted(state.items())), tuple(sorted((t, len(r["results"])) for (t, _), r in runs.items()))))
    # per-run end notification accounting
    for (t, r), ru in sorted(runs.items()):
        notes = ru["notes"]
        if ru["decided"] is not None:
            exp = ["remove"]
        elif ru["ended"] == "exit":
            exp = ["complete"]
        elif ru["ended"] in ("crash", "ext_stop"):
            exp = ["error"]
        else:
            exp = []
        if ru["ended"] in ("exit", "crash", "ext_stop") and not _seen_by_tuner(log, t, r):
            exp_opt = [exp, []]
        elif ex.exc is not None and ru.get("ended_poll") == npoll:
            exp_opt = [exp, []]  # run() raised while processing the poll in which this run ended
        else:
            exp_opt = [exp]
        if notes not in exp_opt:
            v.append((f"protocol:end-notifications:{'+'.join(notes) or 'none'}-expected-{'+'.join(exp) or 'none'}:{ru['ended']}",
                      f"trial {t} run {r} (ended by {ru['ended']}, decision {ru['decided']}): scheduler was told {notes}, expected {exp}"))
    if t_added_missing := [t for t in state if t not in added]:
        # a started trial must be announced (unless the run raised right at the start)
        if ex.exc is None:
            v.append(("protocol:start-without-add", f"trials {t_added_missing} started but on_trial_add never called"))
    for key, msg in proto.errors:
        v.append((key, msg))
    if ex.exc is not None and ex.exc[0] == "ValueError" and "no metrics got observed" in ex.exc[2]:
        # documented reaction of the Tuner to a job that exits without ever reporting; legitimate iff true
        bad = [t for (t, r), ru in runs.items() if ru["ended"] == "exit" and not any(
            e[0] == "emit" and e[1] == t for e in log)]
        if not bad:
            v.append(("exc:ValueError:no-metrics-but-metrics-exist", ex.exc[2]))
    elif ex.exc is not None and ex.exc[0] not in allow_exc:
        v.append((f"exc:{ex.exc[0]}@{ex.exc[1]}", f"{ex.exc[0]} escaped Tuner.run at {ex.exc[1]}: {ex.exc[2]}"))
    ex.proto_seen = proto.seen
    ex.states_seen = states_seen
    # de-duplicate keeping first message
    out, seen = [], set()
    for key, msg in v:
        if key not in seen:
            seen.add(key)
            out.append((key, msg))
    return out


def _seen_by_tuner(log, t, r):
    """was the natural end of run (t, r) shown to the tuning loop in a fetch (not only in stop_all)?"""
    ended = False
    for e in log:
        if e[0] in ("exit", "crash", "ext_stop") and e[1] == t and e[2] == r:
            ended = True
        elif ended and e[0] == "fetch":
            return t in e[1]
        elif ended and e[0] == "stop_all":
            return False
    return False
