"""Post-hoc monitors over the unified event log of one real Tuner.run execution (Engine B)."""
from .protocol import TunerProtocol

TERMINAL = ("stopped", "completed", "failed")


def lifecycle(ex, n_workers, allow_exc=()):
    """C01: ids in sequence, legal status path, occupancy, call protocol. -> [(key, what)]"""
    v = []
    log = ex.log
    state = {}          # trial -> none/running/paused/stopped/completed/failed (ground truth + tuner actions)
    n_new = 0
    runs = {}           # (t, r) -> dict
    cur_run = {}        # t -> r
    added = {}
    last_resume_suggest = set()
    proto = TunerProtocol()
    in_stop_all = False
    npoll = 0
    tuning_ended = False
    states_seen = set()

    def run_of(t):
        return runs.get((t, cur_run.get(t)))

    for idx, e in enumerate(log):
        k = e[0]
        if k == "schedule":
            _, t, r, start, end, occ, has_ckpt, deleted = e
            if r == 0:
                if t != n_new:
                    v.append(("ids:not-sequential", f"new trial got id {t}, expected {n_new}"))
                if t in state:
                    v.append(("ids:issued-twice", f"trial id {t} issued twice"))
                n_new += 1
            else:
                if state.get(t) != "resuming":
                    v.append((f"lifecycle:rerun-from-{state.get(t)}", f"trial {t} scheduled again (run {r}) from state {state.get(t)}"))
            if occ + 1 > n_workers:
                v.append(("occupancy:over-budget", f"trial {t} run {r} scheduled while {occ} of {n_workers} workers are occupied"))
            state[t] = "running"
            cur_run[t] = r
            runs[(t, r)] = dict(decided=None, ended=None, notes=[], results=[], after_end_results=0, start_level=start)
        elif k == "resume":
            t = e[1]
            if state.get(t) != "paused":
                v.append((f"lifecycle:resume-from-{state.get(t)}", f"trial {t} resumed from state {state.get(t)}"))
            if t not in last_resume_suggest:
                v.append(("lifecycle:resume-not-suggested", f"backend resumed trial {t} without a scheduler resume suggestion"))
            last_resume_suggest.discard(t)
            state[t] = "resuming"
        elif k in ("pause", "stop"):
            t = e[1]
            st = state.get(t)
            ru0 = run_of(t)
            # the natural end was shown to the loop at most in the fetch it is processing right now
            same_poll = ru0 is not None and ru0.get("ended") in ("exit", "crash", "ext_stop") and ru0.get("fetches_since_end", 0) <= 1
            if (st in TERMINAL and not same_poll) or st == "paused":
                # (a natural end in the very poll whose result got the decision is overridden by the decision)
                if not in_stop_all:
                    v.append((f"lifecycle:{k}-from-{st}", f"trial {t} moved {st} -> {'paused' if k == 'pause' else 'stopped'}"))
            state[t] = "paused" if k == "pause" else "stopped"
            ru = run_of(t)
            if ru is not None and ru["ended"] is None:
                ru["ended"] = "decision" if not in_stop_all else "stop_all"
        elif k in ("exit", "crash", "ext_stop"):
            t = e[1]
            state[t] = {"exit": "completed", "crash": "failed", "ext_stop": "stopped"}[k]
            ru = run_of(t)
            if ru is not None:
                ru["ended"] = k
                ru["ended_poll"] = npoll
        elif k == "poll":
            npoll = e[1]
        elif k == "fetch":
            for t_ in e[1]:
                ru_ = run_of(t_)
                if ru_ is not None and ru_.get("ended") in ("exit", "crash", "ext_stop"):
                    ru_["fetches_since_end"] = ru_.get("fetches_since_end", 0) + 1
        elif k == "stop_all":
            in_stop_all = True
        elif k == "tuning_end":
            tuning_ended = True
        elif k == "suggest":
            proto.feed(e)
            if e[1] == "resume":
                last_resume_suggest.add(e[2])
        elif k == "on_trial_add":
            proto.feed(e)
            t = e[1]
            added[t] = added.get(t, 0) + 1
            if added[t] > 1:
                v.append(("protocol:add-twice", f"on_trial_add called {added[t]} times for trial {t}"))
            if t not in state:
                v.append(("protocol:add-before-start", f"on_trial_add for trial {t} before it was started"))
        elif k == "on_trial_result":
            proto.feed(e)
            t, res, dec = e[1], e[2], e[3]
            ru = run_of(t)
            if t not in added:
                v.append(("protocol:result-before-add", f"result of trial {t} delivered before on_trial_add"))
            if ru is None:
                v.append(("protocol:result-unknown-trial", f"result for trial {t} which never started"))
                continue
            if ru["notes"]:
                v.append((f"protocol:result-after-{ru['notes'][-1]}", f"trial {t}: on_trial_result after end notification {ru['notes']}"))
            ru["results"].append((res, dec))
            if dec in ("STOP", "PAUSE"):
                ru["decided"] = dec
        elif k in ("on_trial_remove", "on_trial_complete", "on_trial_error"):
            proto.feed(e)
            t = e[1]
            ru = run_of(t)
            if ru is None:
                v.append(("protocol:end-unknown-trial", f"{k} for trial {t} which never started"))
                continue
            ru["notes"].append(k.replace("on_trial_", ""))
        elif k == "loop_end":
            states_seen.add((tuple(sorted(state.items())), tuple(sorted((t, len(r["results"])) for (t, _), r in runs.items()))))
    # per-run end notification accounting
    for (t, r), ru in sorted(runs.items()):
        notes = ru["notes"]
        if ru["decided"] is not None:
            exp = ["remove"]
        elif ru["ended"] == "exit":
            exp = ["complete"]
        elif ru["ended"] in ("crash", "ext_stop"):
            exp = ["error"]
        else:
            exp = []
        if ru["ended"] in ("exit", "crash", "ext_stop") and not _seen_by_tuner(log, t, r):
            exp_opt = [exp, []]
        elif ex.exc is not None and ru.get("ended_poll") == npoll:
            exp_opt = [exp, []]  # run() raised while processing the poll in which this run ended
        else:
            exp_opt = [exp]
        if notes not in exp_opt:
            v.append((f"protocol:end-notifications:{'+'.join(notes) or 'none'}-expected-{'+'.join(exp) or 'none'}:{ru['ended']}",
                      f"trial {t} run {r} (ended by {ru['ended']}, decision {ru['decided']}): scheduler was told {notes}, expected {exp}"))
    if t_added_missing := [t for t in state if t not in added]:
        # a started trial must be announced (unless the run raised right at the start)
        if ex.exc is None:
            v.append(("protocol:start-without-add", f"trials {t_added_missing} started but on_trial_add never called"))
    for key, msg in proto.errors:
        v.append((key, msg))
    if ex.exc is not None and ex.exc[0] == "ValueError" and "no metrics got observed" in ex.exc[2]:
        # documented reaction of the Tuner to a job that exits without ever reporting; legitimate iff true
        bad = [t for (t, r), ru in runs.items() if ru["ended"] == "exit" and not any(
            e[0] == "emit" and e[1] == t for e in log)]
        if not bad:
            v.append(("exc:ValueError:no-metrics-but-metrics-exist", ex.exc[2]))
    elif ex.exc is not None and ex.exc[0] not in allow_exc:
        # root cause: the scheduler raised on a result written after the pause decision of an earlier run and delivered
        # after the resume (judged under C02); named in the key so that any other escaping exception stays distinct
        why = ":on-late-result-after-resume" if raised_on_late_result_after_resume(ex) else ""
        v.append((f"exc:{ex.exc[0]}@{ex.exc[1]}{why}", f"{ex.exc[0]} escaped Tuner.run at {ex.exc[1]}: {ex.exc[2]}"))
    ex.proto_seen = proto.seen
    ex.states_seen = states_seen
    # de-duplicate keeping first message
    out, seen = [], set()
    for key, msg in v:
        if key not in seen:
            seen.add(key)
            out.append((key, msg))
    return out


def _seen_by_tuner(log, t, r):
    """was the natural end of run (t, r) shown to the tuning loop in a fetch (not only in stop_all)?"""
    ended = False
    for e in log:
        if e[0] in ("exit", "crash", "ext_stop") and e[1] == t and e[2] == r:
            ended = True
        elif ended and e[0] == "fetch":
            return True   # tuning went on after the run ended (whether or not the loop still asked about this trial)
        elif ended and e[0] == "stop_all":
            return False
    return False


def raised_on_late_result_after_resume(ex):
    """did the scheduler raise in on_trial_result on a 'late' result (written after the stop/pause decision of its run)
    that was delivered while a later run of the same trial is current?"""
    from syne_tune.constants import ST_WORKER_TIMESTAMP
    backend = ex.backend
    if not hasattr(backend, "truth"):
        return False   # simulator-backed executions have no 'late' outputs (their stale deliveries are judged under C10)
    by_ts = {}
    for t, lst in backend.metrics.items():
        for m, (r, i, late) in zip(lst, backend.truth[t]):
            by_ts[m[ST_WORKER_TIMESTAMP]] = (t, r, late)
    cur_run = {}
    last = None
    for e in ex.log:
        if e[0] == "schedule":
            cur_run[e[1]] = e[2]
        elif e[0] == "on_trial_result":
            last = (e, cur_run.get(e[1]))
    if last is None or last[0][3] != "RAISED":
        return False
    e, cr = last
    info = by_ts.get(e[2].get(ST_WORKER_TIMESTAMP))
    return info is not None and info[0] == e[1] and info[2] and info[1] != cr


def delivery(ex, store_cb=None):
    """C02: delivered results are a gap-free, duplicate-free, in-order prefix of what each run reported;
    nothing reported after a stop/pause decision (nor 'late' output) is ever delivered; after a resume delivery
    continues with the first report of the new run; a run that completed by itself and was seen is delivered fully."""
    from syne_tune.constants import ST_WORKER_TIMESTAMP
    v = []
    log = ex.log
    backend = ex.backend
    by_ts = {}
    for t, lst in backend.metrics.items():
        for m, (r, i, late) in zip(lst, backend.truth[t]):
            by_ts[m[ST_WORKER_TIMESTAMP]] = (t, r, i, late)
    cur_run = {}
    delivered = {}     # (t, r) -> list of idx
    decided = set()    # runs with a STOP/PAUSE decision
    emitted = {}       # (t, r) -> count of non-late emissions
    ended = {}
    n_delivered = 0
    order = []
    for e in log:
        k = e[0]
        if k == "schedule":
            cur_run[e[1]] = e[2]
            delivered.setdefault((e[1], e[2]), [])
        elif k == "emit":
            if not e[5]:
                emitted[(e[1], e[2])] = emitted.get((e[1], e[2]), 0) + 1
        elif k in ("exit", "crash", "ext_stop"):
            ended[(e[1], e[2])] = k
        elif k == "on_trial_result":
            t, res, dec = e[1], e[2], e[3]
            n_delivered += 1
            ts = res.get(ST_WORKER_TIMESTAMP)
            if dec != "RAISED":
                order.append((t, ts))   # (a delivery on which the scheduler raised never reaches the results log)
            if ts not in by_ts:
                v.append(("delivery:unknown-result", f"trial {t}: delivered a result nobody reported: {res}"))
                continue
            tt, r, i, late = by_ts[ts]
            if tt != t:
                v.append(("delivery:wrong-trial", f"result of trial {tt} delivered as trial {t}"))
                continue
            cr = cur_run.get(t)
            if late:
                v.append(("delivery:late-result-delivered" + (":after-resume" if r != cr else ""),
                          f"trial {t}: a result written after the stop/pause decision of run {r} (level {res.get(backend.spec.resource_attr)}) "
                          f"was delivered during run {cr}"))
                continue
            if r != cr:
                v.append(("delivery:stale-run-result", f"trial {t}: result #{i} of run {r} delivered while run {cr} is current"))
                continue
            if (t, r) in decided:
                v.append(("delivery:after-decision", f"trial {t} run {r}: result #{i} delivered after the stop/pause decision"))
            lst = delivered[(t, r)]
            if i != len(lst):
                kind = "duplicate" if i < len(lst) else "gap"
                v.append((f"delivery:{kind}", f"trial {t} run {r}: result #{i} delivered, expected #{len(lst)}"))
            lst.append(i)
            if dec in ("STOP", "PAUSE"):
                decided.add((t, r))
    for (t, r), how in ended.items():
        if how == "exit" and (t, r) not in decided and _seen_by_tuner(log, t, r) and ex.exc is None:
            if len(delivered.get((t, r), [])) != emitted.get((t, r), 0):
                v.append(("delivery:completed-run-incomplete",
                          f"trial {t} run {r} completed by itself after {emitted.get((t, r), 0)} reports, only "
                          f"{len(delivered.get((t, r), []))} were delivered"))
    if store_cb is not None:
        rows = [(int(r["trial_id"]), r.get(ST_WORKER_TIMESTAMP)) for r in store_cb.results]
        if rows != order:
            v.append(("delivery:results-log-differs", f"results log has {len(rows)} rows, {len(order)} results were delivered "
                                                      f"(first difference at {next((i for i, (a, b) in enumerate(zip(rows, order)) if a != b), min(len(rows), len(order)))})"))
    ex.n_delivered = n_delivered
    out, seen = [], set()
    for key, msg in v:
        if key not in seen:
            seen.add(key)
            out.append((key, msg))
    return out


def checkpoints(ex, speculative=False):
    """C20: a checkpoint is deleted only once its trial was stopped by the scheduler, can provably never be resumed
    (declared by the scheduler), or tuning has ended; resume / warm-start never uses a deleted checkpoint."""
    v = []
    state = {}
    declared = set()
    deleted_declared = set()
    in_stop_all = False
    n_del = n_res = n_copy = 0
    npoll = 0
    deleted_at_poll = {}
    expect_ckpt = {}     # trial -> why its next job must find a checkpoint
    had_ckpt = set()
    for e in ex.log:
        k = e[0]
        if k == "poll":
            npoll = e[1]
        if k == "emit" and not e[5]:
            had_ckpt.add(e[1])   # the job writes a checkpoint with every regular report
        if k == "schedule":
            state[e[1]] = "running"
            why = expect_ckpt.pop(e[1], None)
            if why and ex.backend.spec.checkpointing and not e[6]:
                v.append((f"checkpoint:missing-when-job-starts:{why[0]}", f"the job of trial {e[1]} (run {e[2]}) found no checkpoint although "
                                                                          f"{why[1]}, which had not been deleted"))
        elif k == "pause":
            state[e[1]] = "paused"
        elif k == "stop":
            state[e[1]] = "stopped"
        elif k == "exit":
            state[e[1]] = "completed"
        elif k == "crash":
            state[e[1]] = "failed"
        elif k == "ext_stop":
            state[e[1]] = "ext_stopped"
        elif k == "stop_all":
            in_stop_all = True
        elif k == "declared":
            declared.update(e[1])
        elif k == "delete":
            t, had = e[1], e[2]
            n_del += 1
            if had:
                deleted_at_poll[t] = npoll
            if in_stop_all or state.get(t) == "stopped":
                continue
            if t in declared:
                if state.get(t) != "paused":
                    v.append((f"checkpoint:declared-removable-while-{state.get(t)}",
                              f"scheduler declared the checkpoint of trial {t} removable while the trial is {state.get(t)}"))
                deleted_declared.add(t)
                continue
            if speculative and state.get(t) == "paused":
                continue
            v.append((f"checkpoint:deleted-while-{state.get(t)}", f"checkpoint of trial {t} deleted while the trial is {state.get(t)} "
                                                                  f"(not stopped by the scheduler, not declared removable, tuning not ended)"))
        elif k == "resume":
            t, has, deleted = e[1], e[2], e[3]
            n_res += 1
            if t in deleted_declared:
                v.append(("checkpoint:declared-removable-trial-resumed", f"trial {t} was declared never-to-be-resumed, its checkpoint removed, then it was resumed"))
            elif deleted and not speculative:
                v.append(("checkpoint:resume-after-delete", f"trial {t} resumed after its checkpoint had been deleted"))
            elif not deleted and t in had_ckpt and t not in deleted_at_poll:
                expect_ckpt[t] = ("resume", "it is resumed from its own checkpoint")
        elif k == "copy":
            src, tgt, has, deleted = e[1], e[2], e[3], e[4]
            n_copy += 1
            if has and not deleted:
                expect_ckpt[tgt] = ("warm-start", f"it was started from the checkpoint of trial {src}")
            if deleted:
                when = "deleted-in-the-same-poll" if deleted_at_poll.get(src) == npoll else "deleted-in-an-earlier-poll"
                v.append((f"checkpoint:copy-after-delete:src-{state.get(src)}:{when}",
                          f"trial {tgt} warm-started (poll {npoll}) from the checkpoint of trial {src} which had been deleted in poll "
                          f"{deleted_at_poll.get(src)} (source is {state.get(src)})"))
    ex.ckpt_counts = (n_del, n_res, n_copy)
    out, seen = [], set()
    for key, msg in v:
        if key not in seen:
            seen.add(key)
            out.append((key, msg))
    return out


def crit_holds(stop, snap, max_failures):
    """Independent reading of the StoppingCriterion docs: 'stop once MORE than this number ...'."""
    if snap["failed"] > max_failures:
        return True
    for k, v in stop.items():
        if k == "max_wallclock_time" and snap["wallclock"] > v:
            return True
        if k == "max_num_trials_started" and snap["started"] > v:
            return True
        if k == "max_num_trials_completed" and snap["completed"] > v:
            return True
        if k == "max_num_trials_finished" and snap["finished"] > v:
            return True
        if k == "max_num_evaluations" and snap["evals"] > v:
            return True
        if k == "max_cost" and snap["cost"] > v:
            return True
        if k == "max_metric_value" and snap["evals"] > 0:
            for m, thr in v.items():
                if m in snap["max"] and snap["max"][m] > thr:
                    return True
        if k == "min_metric_value" and snap["evals"] > 0:
            for m, thr in v.items():
                if m in snap["min"] and snap["min"][m] < thr:
                    return True
    return False


def termination(ex, cfg):
    """C12: ends at the end of the first iteration after which the criterion holds; nothing started afterwards; bounded
    overshoot; after run(): nothing running, stop_all + on_tuning_end called, counters equal ground truth."""
    from .backends import ALIVE
    v = []
    log = ex.log
    stop = cfg["stop"]
    W = cfg["W"]
    wait = cfg.get("wait", False)
    max_failures = cfg.get("max_failures", 5)
    first_hold = None
    loops = 0
    n_tuning_end = 0
    stop_all_seen = False
    started = set()
    killed_by_stop_all = []
    in_stop_all = False
    alive = set()
    own_min, own_max = {}, {}   # metric thresholds are read on the values handed to the loop, not on the tuner's own statistics

    def own(snap_):
        return None if snap_ is None else dict(snap_, min=dict(own_min), max=dict(own_max))
    for e in log:
        k = e[0]
        if k == "fetch":
            for _t, res_ in e[2]:
                for name_, val_ in res_.items():
                    if isinstance(val_, (int, float)) and not isinstance(val_, bool) and val_ == val_:
                        own_min[name_] = min(own_min.get(name_, val_), val_)
                        own_max[name_] = max(own_max.get(name_, val_), val_)
        if k == "loop_start":
            loops = e[1]
            snap0 = own(e[2] if len(e) > 2 else None)
            if first_hold is None and snap0 is not None and crit_holds(stop, snap0, max_failures):
                # the criterion already held when the previous iteration ended (even if that iteration never
                # reached its end-of-loop callbacks)
                first_hold = loops - 1
            if first_hold is not None and not wait:
                v.append(("termination:loop-continues-after-criterion", f"criterion held at the end of iteration {first_hold}, "
                                                                        f"iteration {loops} started nevertheless"))
            if first_hold is not None and wait and not alive:
                pass
        elif k == "loop_end":
            snap = own(e[2])
            if snap is not None and first_hold is None and crit_holds(stop, snap, max_failures):
                first_hold = e[1]
        elif k == "schedule":
            if first_hold is not None:
                v.append(("termination:start-after-criterion", f"trial {e[1]} (run {e[2]}) started in a later iteration than {first_hold}, "
                                                               f"at whose end the stopping criterion already held"))
            if in_stop_all:
                v.append(("termination:start-during-shutdown", f"trial {e[1]} started after stop_all"))
            started.add(e[1])
            alive.add(e[1])
        elif k in ("exit", "crash", "ext_stop", "pause"):
            alive.discard(e[1])
        elif k == "stop":
            if in_stop_all and e[1] in alive:
                killed_by_stop_all.append(e[1])
            alive.discard(e[1])
        elif k == "stop_all":
            stop_all_seen = True
            in_stop_all = True
        elif k == "tuning_end":
            n_tuning_end += 1
    exc = ex.exc
    expected_exc = cfg.get("expect_exc") if any(e[0] == "injected" for e in log) else None
    if exc is not None and exc[0] == "LoopCap" and first_hold is None:
        pass  # horizon reached while the criterion never held: nothing to judge
    elif exc is not None and exc[0] == "LoopCap":
        v.append(("termination:does-not-terminate", f"loop still running after {loops} iterations (criterion first held at {first_hold})"))
    elif exc is not None and not (expected_exc and exc[0] == expected_exc):
        if not (exc[0] == "ValueError" and ("no metrics got observed" in exc[2] or " failed" in exc[2])):
            v.append((f"exc:{exc[0]}@{exc[1]}", f"{exc[0]} escaped Tuner.run at {exc[1]}: {exc[2]}"))
    elif exc is None and expected_exc:
        v.append(("termination:injected-exception-swallowed", f"the scheduler raised {expected_exc} but Tuner.run returned normally"))
    if exc is None and first_hold is None and not any(e[0] == "suggest" and e[1] is None for e in log):
        v.append(("termination:ended-before-criterion", f"Tuner.run returned after {loops} iterations although the stopping criterion "
                                                        f"{stop} never held and the search space was not exhausted"))
    # after run() returned or raised
    still = [t for t, p in ex.backend.proc.items() if p == ALIVE]
    if still:
        v.append(("termination:trials-left-running", f"jobs of trials {still} are still alive after Tuner.run ended ({'exception ' + exc[0] if exc else 'normal'})"))
    if not stop_all_seen:
        v.append(("termination:stop_all-not-called", "trial_backend.stop_all was not called"))
    if n_tuning_end != 1:
        v.append((f"termination:on_tuning_end-called-{n_tuning_end}-times", "callbacks' on_tuning_end must run exactly once"))
    if wait and exc is None and killed_by_stop_all and first_hold is not None:
        v.append(("termination:wait-mode-killed-running-trials", f"wait_trial_completion_when_stopping: trials {killed_by_stop_all} were still "
                                                                 f"running and killed at shutdown"))
    if exc is None and len(stop) == 1 and "max_num_trials_started" in stop:
        if len(started) > stop["max_num_trials_started"] + W:
            v.append(("termination:budget-overshoot", f"{len(started)} trials started, budget {stop['max_num_trials_started']} + n_workers {W}"))
    # counters vs ground truth
    ts = ex.tuner.tuning_status
    if ts is not None:
        truth = final_status_sets(ex)
        seen = dict(ts.last_trial_status_seen)
        if exc is not None:
            # trials started in the iteration that raised may not have reached the status object
            last_ls = max([i for i, e in enumerate(log) if e[0] == "loop_start"] or [0])
            late = {e[1] for i, e in enumerate(log) if i > last_ls and e[0] == "schedule" and e[2] == 0}
            truth = {t: s for t, s in truth.items() if t in seen or t not in late}
            touched = {e[1] for i, e in enumerate(log) if i > last_ls and e[0] in ("pause", "stop", "exit", "crash", "ext_stop", "schedule", "resume")}
            truth = {t: (s | {"Stopped"} if t in touched else s) for t, s in truth.items()}
        if set(seen) != set(truth):
            v.append(("status:trials-unknown-to-status", f"tuning status knows trials {sorted(seen)}, backend started {sorted(truth)}"))
        else:
            bad = {t: (seen[t], sorted(truth[t])) for t in seen if seen[t] not in truth[t]}
            if bad:
                t0 = sorted(bad)[0]
                v.append((f"status:final-status-{bad[t0][0]}-truth-{'/'.join(bad[t0][1])}",
                          f"final status of trials differs from what happened: {bad}"))
        if ts.num_trials_started != len(truth):
            v.append(("status:num-started", f"num_trials_started={ts.num_trials_started}, {len(truth)} trials were started"))
        for name, stset in (("num_trials_completed", {"Completed"}), ("num_trials_failed", {"Failed"}),
                            ("num_trials_finished", {"Completed", "Stopped", "Stopping", "Failed"})):
            got = getattr(ts, name)
            lo = sum(1 for t in truth if truth[t] <= stset)
            hi = sum(1 for t in truth if truth[t] & stset)
            if not (lo <= got <= hi):
                v.append((f"status:{name}", f"{name}={got}, ground truth between {lo} and {hi}"))
    store = ex.extra.get("store")
    if store is not None and exc is None or (store is not None and expected_exc):
        n_rows = len(store.results)
        n_del = sum(1 for e in log if e[0] == "on_trial_result" and e[3] != "RAISED")
        path = getattr(store, "csv_file", None)
        import os
        if path is not None and not os.path.exists(str(path)):
            v.append(("termination:final-results-not-stored", f"results file {path} missing after run()"))
        elif path is not None:
            import pandas as pd
            try:
                n_file = len(pd.read_csv(path))
            except Exception:
                n_file = 0 if n_rows == 0 else -1
            if n_file != n_rows or n_rows != n_del:
                v.append(("termination:final-results-not-stored", f"{n_del} results delivered, {n_rows} rows in memory, {n_file} rows on disk"))
    ex.first_hold = first_hold
    out, seen_k = [], set()
    for key, msg in v:
        if key not in seen_k:
            seen_k.add(key)
            out.append((key, msg))
    return out


def final_status_sets(ex):
    """trial -> set of final statuses consistent with what happened (ground truth + tuner-visible overrides)."""
    log = ex.log
    st = {}
    last_poll_idx = max([i for i, e in enumerate(log) if e[0] == "poll"] or [-1])
    for i, e in enumerate(log):
        k = e[0]
        if k == "schedule":
            st[e[1]] = {"InProgress"}
        elif k == "pause":
            st[e[1]] = {"Paused"}
        elif k == "stop":
            st[e[1]] = {"Stopped"}
        elif k == "exit":
            st[e[1]] = {"Completed"} if not (ex.exc is not None and i > last_poll_idx) else {"Completed", "Stopped", "InProgress"}
        elif k == "crash":
            st[e[1]] = {"Failed"} if not (ex.exc is not None and i > last_poll_idx) else {"Failed", "Stopped", "InProgress"}
        elif k == "ext_stop":
            st[e[1]] = {"Stopped"}
    # run() marks what it believes to be running as stopped
    return {t: ({"Stopped"} if s == {"InProgress"} else (s - {"InProgress"}) | ({"Stopped"} if "InProgress" in s else set())) for t, s in st.items()}
