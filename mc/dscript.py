"""DecisionScriptScheduler: a public TrialScheduler subclass (harness side) that replays a fixed decision word, so that
stop / pause / resume sequences do not depend on what the shipped schedulers happen to decide."""
from . import env  # noqa: F401
from syne_tune.optimizer.scheduler import TrialScheduler, TrialSuggestion, SchedulerDecision

DEC = {"C": SchedulerDecision.CONTINUE, "P": SchedulerDecision.PAUSE, "S": SchedulerDecision.STOP}


class DecisionScriptScheduler(TrialScheduler):
    def __init__(self, word, resume=True, max_trials=3):
        super().__init__(config_space={})
        self.word = word
        self.i = 0
        self.resume = resume
        self.paused = []
        self.n = 0
        self.max_trials = max_trials
        self.configs = {}

    def _suggest(self, trial_id):
        if self.resume and self.paused:
            t = self.paused.pop(0)
            return TrialSuggestion.resume_suggestion(trial_id=t, config=None)
        if self.n >= self.max_trials and self.paused:
            t = self.paused.pop(0)
            return TrialSuggestion.resume_suggestion(trial_id=t, config=None)
        self.n += 1
        return TrialSuggestion.start_suggestion(config={"x": trial_id})

    def on_trial_result(self, trial, result):
        d = DEC[self.word[self.i]] if self.i < len(self.word) else SchedulerDecision.CONTINUE
        self.i += 1
        if d == SchedulerDecision.PAUSE:
            self.paused.append(trial.trial_id)
        return d

    def metric_names(self):
        return ["m"]

    def metric_mode(self):
        return "min"
