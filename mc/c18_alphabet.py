"""C18 alphabets: report payloads, noise items, rejection items; JSON-normal form; strict comparison.

Everything here is static data plus two small pure functions.  Items are addressed by *name* so that cases and
replays are JSON-able.  Name prefixes carry the oracle class:

  p_*  payload that MUST be accepted and arrive as its JSON-normal form
  r_*  report the reporting side promises to reject (reserved ``st_`` key, oversized)
  u_*  unserialisable report -- ``_serialize_report_dict`` docstring: "an exception is raised ... if the dictionary
       values are not JSON-serializable"; MUST be rejected
  e_*  "either": rejection is not promised by the property (top-level None, np.longdouble, numpy key of a nested
       dict); accepted => must arrive as normal form, rejected => must leave no tagged text
  n_*  noise (never contains the text ``tune-metric``: a forged tag is a report by definition)
"""
import math

import numpy as np

TAG = "tune-metric"  # compared against syne_tune.constants.ST_SAGEMAKER_METRIC_TAG at run time

nan, inf = float("nan"), float("inf")

# --------------------------------------------------------------------------- accepted payloads

PAYLOADS = {
    "p_flat": {"epoch": 3, "loss": 0.125},
    "p_empty": {},
    "p_nested": {"a": {"b": [1, {"c": [2.5, "x"]}], "d": {}}, "l": [[], [[]]], "t": (1, (2, 3)),
                 "m": {7: "seven", 2.5: "f"}},
    "p_brace_str": {"s": "}{ ][ \" \\ \n \r \t }", "k}": "{", "]: {": "}\n{"},
    "p_tag_in_value": {"msg": "[" + TAG + "]: {\"fake\": 1}", "tail": 1},
    "p_tag_multiline": {"log": "x\n[" + TAG + "]: {\"a\": 2}\n[" + TAG + "]: {", "[" + TAG + "]: ": [TAG]},
    "p_unicode": {"name": "naïve ✓ 损失 \u2028\u2029 \U0001F600 \x0b\x85", "ключ": 1},
    "p_nan": {"a": nan, "b": inf, "c": -inf, "d": -0.0, "e": 5e-324, "f": 1.7976931348623157e308,
              "g": 0.1 + 0.2, "h": [nan, {"i": -inf}]},
    "p_bigint": {"i": 2 ** 70, "n": -2 ** 63, "z": 0},
    "p_bool_none": {"t": True, "f": False, "n": [None], "d": {"x": None}, "one": 1, "onef": 1.0},
    "p_np_int": {"i8": np.int8(-128), "i16": np.int16(-3), "i32": np.int32(2 ** 31 - 1), "i64": np.int64(-2 ** 63),
                 "u8": np.uint8(255), "u16": np.uint16(65535), "u32": np.uint32(2 ** 32 - 1),
                 "u64": np.uint64(2 ** 64 - 1), "ip": np.intp(5)},
    "p_np_float": {"f16": np.float16(0.1), "f32": np.float32(0.1), "f64": np.float64(0.1),
                   "n32": np.float32("nan"), "i64": np.float64("inf"), "m32": np.float32("-inf"),
                   "z": np.float64(-0.0), "one": np.float32(1.0)},
    "p_np_bool_str": {"t": np.bool_(True), "f": np.bool_(False), "s": np.str_("x{y}"), "o": np.int64(1),
                      "z": np.int64(0)},
    "p_np_nested": {"l": [np.int64(1), np.float32(2.5), np.bool_(False), [np.uint8(7)]],
                    "d": {"k": np.float64(1.5), "b": np.bool_(True)}, "t": (np.int32(4),)},
    "p_big": {"blob": ("{}[]x" * 9600)},  # 48 000 chars: just under the size limit together with the st_ fields
    "p_near_reserved": {"stx": 1, "St_a": 2, "_st_": 3, "s": {"st_inner": 4}, "": 5},
    "p_literal_str": {"a": "NaN", "b": "1", "c": "true", "d": "null", "e": "{\"x\": 1}", "f": "Infinity"},
}

PLAIN = ("p_flat",)  # payloads that do not count as "special" for distinct_nontrivial

# --------------------------------------------------------------------------- reports that must be rejected


class _Opaque:
    def __repr__(self):
        return "<opaque>"


REJECTS = {
    "r_st_key": {"st_x": 1, "loss": 0.5},
    "r_st_counter": {"st_worker_iter": 99},
    "r_oversize": {"blob": "x" * 60_000},
    "r_oversize_unicode": {"blob": "é" * 10_000},  # 60 000 bytes once escaped
    "r_oversize_many": {"k%d" % i: i for i in range(6000)},
    "u_set": {"a": {1, 2}},
    "u_ndarray": {"a": np.arange(3)},
    "u_bytes": {"a": b"xy"},
    "u_complex": {"a": 1 + 2j},
    "u_object": {"a": _Opaque()},
    "u_nested_set": {"ok": 1, "a": [1, {"b": {3}}]},
    "u_np_bytes": {"a": np.bytes_(b"x")},
    "u_np_complex": {"a": np.complex64(1 + 2j)},
    "u_np_datetime": {"a": np.datetime64("2020-01-01")},
}

EITHER = {
    "e_none_top": {"a": None, "b": 1},
    "e_np_longdouble": {"a": np.longdouble(1.5)},
    "e_np_key": {"a": {np.int64(1): 2}},
}

# --------------------------------------------------------------------------- noise

NOISE = {
    "n_empty": "\n",
    "n_text": "Epoch 3/10 - loss: 0.25 - acc: 0.91\n",
    "n_braces": "config = {'lr': 0.1, 'layers': [64, {32}]} }{ ]: {\n",
    "n_nonl": "step 120/500",
    "n_nonl_braces": "partial {\"k\": [1, {\"x\": ",
    "n_crlf": "windows style line {1}\r\n",
    "n_json": "{\"loss\": 0.5, \"epoch\": 1, \"st_worker_iter\": 7}\n",
    "n_10k": ("ab{c}[d]" * 1280) + "\n",
    # beyond the seven of DESIGN.md
    "n_cr": "\r 50%|#####     |\r 60%|######    |",
    "n_near_tag": "[tune_metric]: {\"loss\": 1} [tune-metri c]: {\"loss\": 2} [tune-metri\n",
    "n_unicode": "Präzision ✓ 损失=0.5 {«»}\n",
    # not valid UTF-8: written through sys.stdout.buffer (own family, see c18.py)
    "n_badbytes": b"caf\xe9 \xff\xfe raw bytes {\n",
}

NOISE_DESIGN = ("n_empty", "n_text", "n_braces", "n_nonl", "n_crlf", "n_json", "n_10k")
NOISE_FULL = NOISE_DESIGN + ("n_nonl_braces", "n_cr", "n_near_tag", "n_unicode")
NOISE_SMALL = ("n_nonl", "n_nonl_braces", "n_braces", "n_empty", "n_crlf")
NOISE_TINY = ("n_nonl_braces", "n_braces", "n_text")

# the 14 of DESIGN.md for the length-3 product (the other three are covered in all sequences of length <= 2)
PAYLOAD_MAIN = tuple(n for n in PAYLOADS if n not in ("p_np_nested", "p_near_reserved", "p_literal_str"))
PAYLOAD_SMALL = ("p_flat", "p_nested", "p_brace_str", "p_tag_multiline", "p_np_bool_str", "p_empty")
PAYLOAD_TINY = ("p_flat", "p_nested", "p_tag_in_value", "p_empty")
PAYLOAD_CLOCK = ("p_flat", "p_nested", "p_empty")

for _n, _v in NOISE.items():
    assert TAG.encode() not in (_v if isinstance(_v, bytes) else _v.encode()), _n


def item(name):
    for tab in (PAYLOADS, REJECTS, EITHER):
        if name in tab:
            return tab[name]
    raise KeyError(name)


def kind_of(name):
    """'p' must accept, 'r' must reject, 'e' either."""
    if name in PAYLOADS:
        return "p"
    if name in REJECTS:
        return "r"
    if name in EITHER:
        return "e"
    raise KeyError(name)


# --------------------------------------------------------------------------- JSON-normal form (independent of json)

def _jkey(k):
    if isinstance(k, np.generic):
        k = k.item()
    if isinstance(k, str):
        return str(k)
    if k is True:
        return "true"
    if k is False:
        return "false"
    if k is None:
        return "null"
    if isinstance(k, int):
        return int.__repr__(k)
    if isinstance(k, float):
        return float.__repr__(k)
    raise TypeError(k)


def normal(x):
    """What a JSON round trip must deliver: tuples -> lists, keys -> strings, numpy scalars -> plain numbers."""
    if isinstance(x, np.generic):
        kind = x.dtype.kind
        if kind == "b":
            return bool(x)
        if kind in "iu":
            return int(x)
        if kind == "f":
            return float(x)
        if kind == "U":
            return str(x)
        raise TypeError(type(x))
    if x is None or type(x) in (bool, int, float, str):
        return x
    if isinstance(x, dict):
        return {_jkey(k): normal(v) for k, v in x.items()}
    if isinstance(x, (list, tuple)):
        return [normal(v) for v in x]
    raise TypeError(type(x))


_MISSING = object()


def same(a, b):
    """Type-strict, NaN-aware, sign-of-zero-aware equality of JSON values."""
    ta = type(a)
    if ta is not type(b):
        return False
    if ta is dict:
        if len(a) != len(b):
            return False
        for k, v in a.items():
            w = b.get(k, _MISSING)
            if w is _MISSING or not same(v, w):
                return False
        return True
    if ta is list:
        if len(a) != len(b):
            return False
        for x, y in zip(a, b):
            if not same(x, y):
                return False
        return True
    if ta is float:
        if a != a:
            return b != b
        return a == b and math.copysign(1.0, a) == math.copysign(1.0, b)
    return a == b


def first_diff(a, b, path="$"):
    """Human-readable first difference (for Violation.what)."""
    if type(a) is not type(b):
        return "%s: %s %.60r != %s %.60r" % (path, type(a).__name__, a, type(b).__name__, b)
    if isinstance(a, dict):
        if a.keys() != b.keys():
            return "%s: keys %.120r != %.120r" % (path, sorted(a), sorted(b))
        for k in a:
            if not same(a[k], b[k]):
                return first_diff(a[k], b[k], path + "." + k)
    if isinstance(a, list):
        if len(a) != len(b):
            return "%s: length %d != %d" % (path, len(a), len(b))
        for i, (x, y) in enumerate(zip(a, b)):
            if not same(x, y):
                return first_diff(x, y, "%s[%d]" % (path, i))
    return "%s: %.60r != %.60r" % (path, a, b)


NORMAL = {n: normal(v) for n, v in PAYLOADS.items()}
NORMAL["e_none_top"] = {"a": None, "b": 1}
NORMAL["e_np_longdouble"] = {"a": 1.5}
NORMAL["e_np_key"] = {"a": {"1": 2}}
