"""C09 lattice and builders (real syne-tune objects; mc.env must be imported first)."""
import itertools

from . import env  # noqa: F401

import numpy as np
from autograd.tracer import getval

from syne_tune.config_space import uniform
from syne_tune.optimizer.schedulers.searchers.utils.hp_ranges_factory import make_hyperparameter_ranges
from syne_tune.optimizer.schedulers.searchers.bayesopt.datatypes.common import (
    INTERNAL_METRIC_NAME, INTERNAL_CONSTRAINT_NAME, INTERNAL_COST_NAME)
from syne_tune.optimizer.schedulers.searchers.bayesopt.utils.test_objects import create_tuning_job_state
from syne_tune.optimizer.schedulers.searchers.bayesopt.gpautograd import posterior_utils as _pu
from syne_tune.optimizer.schedulers.searchers.bayesopt.gpautograd.gp_regression import GaussianProcessRegression
from syne_tune.optimizer.schedulers.searchers.bayesopt.gpautograd.kernel import Matern52
from syne_tune.optimizer.schedulers.searchers.bayesopt.gpautograd.mean import ScalarMeanFunction, ZeroMeanFunction
from syne_tune.optimizer.schedulers.searchers.bayesopt.gpautograd.target_transform import BoxCoxTargetTransform
from syne_tune.optimizer.schedulers.searchers.bayesopt.gpautograd.likelihood import GaussianProcessMarginalLikelihood
from syne_tune.optimizer.schedulers.searchers.bayesopt.gpautograd.gluon_blocks_helpers import IdentityScalarEncoding
from syne_tune.optimizer.schedulers.searchers.bayesopt.gpautograd.optimization_utils import (
    create_lbfgs_arguments, add_regularizer_to_criterion, ParamVecDictConverter)
from syne_tune.optimizer.schedulers.searchers.bayesopt.models.gp_model import GaussProcEmpiricalBayesEstimator
from syne_tune.optimizer.schedulers.searchers.bayesopt.models.meanstd_acqfunc_impl import (
    EIAcquisitionFunction, LCBAcquisitionFunction, EIpuAcquisitionFunction, CEIAcquisitionFunction)

# ------------------------------------------------------------------------------------- data grid
# Inputs in general position: no coordinate within 2^-4 of an acquisition lattice coordinate {0.2,0.5,0.8}
# (finite-difference stencils never touch the r=0 point of the Matern kernel), no symmetry about 0.5.
GRID = {
    1: [(0.33,), (0.94,), (0.06,), (0.68,), (0.42,)],
    2: [(0.33, 0.71), (0.94, 0.12), (0.06, 0.27), (0.68, 0.91), (0.42, 0.56)],
}
PENDING = {1: [(0.39,), (0.89,)], 2: [(0.45, 0.61), (0.86, 0.37)]}
# positive targets (usable by Box-Cox as well)
YPAT = [[1.3, 0.4, 2.1, 0.9, 1.6], [0.7, 2.4, 1.1, 3.2, 0.5]]
YCOST = [1.5, 3.0, 1.1, 2.4, 1.9]
YCON_FEAS = [-0.5, -0.9, 0.7, -0.3, 0.4]       # every subset of size >= 2 of the first four has a feasible point
YCON_INFEAS = [0.5, 0.9, 0.7, 0.3, 0.4]
# all observed points (barely) infeasible: a pending point is feasible in some fantasy samples and infeasible in others
YCON_MIXED = [0.05, 0.02, 0.06, 0.03, 0.04]
CONSTRAINT_MIX_NAME = "constraint_mixed"
INPUT_LEVELS = (0.2, 0.5, 0.8)
QUANTILES = (0.25, 0.5, 0.75)
UNBOUNDED_LEVELS = (-0.8, 0.3, 1.4)
CONSTRAINT_INF_NAME = "constraint_infeasible"


def subset_of(cfg):
    return list(cfg["subset"])


def dataset(cfg):
    idx = subset_of(cfg)
    X = np.array([GRID[cfg["d"]][i] for i in idx], dtype=float)
    y = np.array([YPAT[cfg["ypat"]][i] for i in idx], dtype=float).reshape(-1, 1)
    return X, y


# ------------------------------------------------------------------------------------ jitter spy
class _JitterSpy:
    """Harness-side seam around the AddJitterOp primitive used by cholesky_computations: records whether the
    forward pass had to add jitter (x + (sigsq + jitter)) - such points are excluded from differentiation by design."""

    def __init__(self):
        self.calls = 0
        self.jittered = 0
        self.total = 0          # never reset

    def reset(self):
        self.calls = 0
        self.jittered = 0


SPY = _JitterSpy()
_orig_add_jitter = _pu.AddJitterOp


def _spy_add_jitter(inputs, *a, **kw):
    out = _orig_add_jitter(inputs, *a, **kw)
    iv, ov = getval(inputs), getval(out)
    SPY.calls += 1
    SPY.total += 1
    if float(ov[0, 0]) != float(iv[0] + iv[-1]):
        SPY.jittered += 1
    return out


if getattr(_pu.AddJitterOp, "__name__", "") != "_spy_add_jitter":
    _pu.AddJitterOp = _spy_add_jitter


# ---------------------------------------------------------------------------------- part A: fitting
def kind_of(param_name):
    k = param_name.split("_", 1)[1]
    return k[:-len("_internal")] if k.endswith("_internal") else k


class FitProblem:
    """The scipy objective of create_lbfgs_arguments for one model configuration and data set."""

    def __init__(self, cfg):
        self.cfg = cfg
        d = cfg["d"]
        X, y = dataset(cfg)
        kernel = Matern52(d, ARD=bool(cfg["ard"]), encoding_type=cfg["enc"])
        if cfg.get("warp"):
            from syne_tune.optimizer.schedulers.searchers.bayesopt.gpautograd.warping import Warping, WarpedKernel
            ranges = [(0, d)] if cfg["warp"] == 1 else [(0, 1), (1, d)]
            kernel = WarpedKernel(kernel=kernel, warpings=[Warping(dimension=d, coordinate_range=r, encoding_type=cfg["enc"])
                                                           for r in ranges])
        self.with_bounds = bool(cfg.get("bounds"))
        mean = ScalarMeanFunction() if cfg["mean"] == "scalar" else ZeroMeanFunction()
        tt = BoxCoxTargetTransform() if cfg["tt"].startswith("bc") else None
        lik = GaussianProcessMarginalLikelihood(kernel=kernel, mean=mean, target_transform=tt,
                                                encoding_type=cfg["enc"])
        lik.reset_params(np.random.RandomState(0))
        self.lik = lik
        self.data = {"features": X, "targets": y}
        if cfg["tt"] != "bc-free":
            lik.on_fit_start(self.data)      # as GaussianProcessOptimizeModel.fit does (n<5 => lambda fixed)
        self.objective, pdict = create_lbfgs_arguments(lik, [self.data])
        self.conv = ParamVecDictConverter(pdict)
        self.center = np.array(self.conv.to_vec(), dtype=float)
        self.coords = []     # (index, label, levels_internal)
        self.box = {}        # index -> (lower, upper) in internal coordinates (None = unbounded / enforced by the encoding)
        for param, enc in lik.param_encoding_pairs():
            idxs = self.conv.name_to_index[param.name]
            kind = kind_of(param.name)
            levels = self._levels(enc)
            for ix in idxs:
                self.box[int(ix)] = tuple(None if b is None else float(np.asarray(enc.decode(b, "level")).reshape(-1)[0])
                                          for b in enc.box_constraints())
            if self.with_bounds:
                # the exact box bounds as well: that is where a projected optimiser puts its iterates, and the sign of the
                # gradient there decides whether the variable is released
                lo, hi = enc.box_constraints()
                for b in (lo, hi):
                    if b is not None:
                        lv = float(np.asarray(enc.decode(b, "level")).reshape(-1)[0])
                        if lv not in levels:
                            levels = levels + [lv]
            for j, ix in enumerate(idxs):
                label = kind if len(idxs) == 1 else f"{kind}[{j}]"
                self.coords.append((int(ix), label, kind, levels))
        self.coords.sort()
        assert [c[0] for c in self.coords] == list(range(len(self.center)))

    @staticmethod
    def _levels(enc):
        lo, hi = enc.box_constraints()
        if lo is None and getattr(enc, "lower", None) is not None:
            lo = enc.lower           # PositiveScalarEncoding: the lower bound is enforced by the encoding itself
        if lo is not None and hi is not None and lo == hi:
            vals = [lo]
        elif isinstance(enc, IdentityScalarEncoding):
            if lo is None or hi is None:
                vals = list(UNBOUNDED_LEVELS)
            else:
                vals = [lo + (hi - lo) * q for q in QUANTILES]
                if lo < 0.0 < hi:
                    vals.append(0.0)   # a series expansion takes over around 0 (Box-Cox lambda): its derivative counts too
        else:
            vals = [lo ** (1 - q) * hi ** q for q in QUANTILES]
        return [float(np.asarray(enc.decode(v, "level")).reshape(-1)[0]) for v in vals]

    def value_alone(self, x):
        self.conv.from_vec(np.asarray(x, dtype=float))
        v = add_regularizer_to_criterion(self.lik, [self.data])
        return float(np.asarray(v).reshape(-1)[0])

    def value_and_grad(self, x):
        v, g = self.objective(np.asarray(x, dtype=float))
        return float(np.asarray(v).reshape(-1)[0]), np.asarray(g, dtype=float).reshape(-1)

    def base_points(self, full):
        pts, seen = [], set()

        def add(v):
            t = tuple(float(a) for a in v)
            if t not in seen:
                seen.add(t)
                pts.append(np.array(t))

        add(self.center)
        for ix, _, _, levels in self.coords:
            for lv in levels:
                v = self.center.copy()
                v[ix] = lv
                add(v)
        if full:
            for combo in itertools.product(*[c[3] for c in self.coords]):
                add(combo)
        return pts


# ------------------------------------------------------------------------------ part B: acquisition
HYPER = {
    0: None,                                                     # the initial values every fit starts from
    1: dict(noise=0.03, cs=1.7, ib=2.6, ib_ard=(2.1, 3.3), mean=0.3, lam=0.2),
    2: dict(noise=1e-4, cs=0.6, ib=0.7, ib_ard=(0.5, 1.2), mean=-0.4, lam=1.25),
}


def _set_hyper(est, cfg, with_lambda):
    h = HYPER[cfg["P"]]
    if h is None:
        return
    p = dict(est.get_params())
    p["noise_variance"] = h["noise"]
    p["kernel_covariance_scale"] = h["cs"]
    if "kernel_inv_bw" in p:
        p["kernel_inv_bw"] = h["ib"]
    else:
        for k in range(cfg["d"]):
            p[f"kernel_inv_bw{k}"] = h["ib_ard"][k]
    if "mean_mean_value" in p:
        p["mean_mean_value"] = h["mean"]
    if with_lambda and "ytrans_boxcox_lambda" in p:
        p["ytrans_boxcox_lambda"] = h["lam"]
    est.set_params(p)


def _predictor(cfg, hp, metric, values, seed, boxcox, fantasize=True):
    idx = subset_of(cfg)
    d = cfg["d"]
    X = [GRID[d][i] for i in idx]
    Y = [{metric: values[i]} for i in idx]
    npend = cfg["npend"]
    pend = [PENDING[d][k] for k in range(npend)] if npend else None
    state = create_tuning_job_state(hp, list(X), Y, pending_tuples=list(pend) if pend else None)
    kernel = Matern52(d, ARD=bool(cfg["ard"]))
    mean = ScalarMeanFunction() if cfg["mean"] == "scalar" else ZeroMeanFunction()
    gp = GaussianProcessRegression(kernel=kernel, mean=mean,
                                   target_transform=BoxCoxTargetTransform() if boxcox else None,
                                   random_seed=seed)
    est = GaussProcEmpiricalBayesEstimator(gpmodel=gp, num_fantasy_samples=cfg["nf"], active_metric=metric,
                                           normalize_targets=not boxcox, no_fantasizing=not fantasize)
    _set_hyper(est, cfg, boxcox)
    return est.fit_from_state(state, update_params=False)


class AcqProblem:
    """All acquisition heads over one family of GP predictors (active / cost / constraint)."""

    def __init__(self, cfg, seed):
        self.cfg = cfg
        d = cfg["d"]
        hp = make_hyperparameter_ranges({f"x{i}": uniform(0.0, 1.0) for i in range(d)})
        base = 0          # fantasy draws do not depend on VERIF_SEED (same lattice for every seed)
        bc = cfg["tt"] == "bc"
        A, C, K, CI = INTERNAL_METRIC_NAME, INTERNAL_CONSTRAINT_NAME, INTERNAL_COST_NAME, CONSTRAINT_INF_NAME
        SPY.reset()
        self.active = _predictor(cfg, hp, A, YPAT[cfg["ypat"]], base + 1, bc)
        self.cost = _predictor(cfg, hp, K, YCOST, base + 2, False)
        self.con = _predictor(cfg, hp, C, YCON_FEAS, base + 3, False)
        self.coninf = _predictor(cfg, hp, CI, YCON_INFEAS, base + 4, False)
        self.conmix = _predictor(cfg, hp, CONSTRAINT_MIX_NAME, YCON_MIXED, base + 6, False) if cfg["npend"] else None
        self.model_jitter = SPY.jittered
        self.heads = {
            "EI": EIAcquisitionFunction(self.active),
            "LCB": LCBAcquisitionFunction(self.active, kappa=1.0),
            "EIpu-e1": EIpuAcquisitionFunction({A: self.active, K: self.cost}, active_metric=A, exponent_cost=1.0),
            "EIpu-e0.5": EIpuAcquisitionFunction({A: self.active, K: self.cost}, active_metric=A,
                                                 exponent_cost=0.5),
            "CEI-feas": CEIAcquisitionFunction({A: self.active, C: self.con}, active_metric=A),
            "CEI-nofeas": CEIAcquisitionFunction({A: self.active, CI: self.coninf}, active_metric=A),
        }
        self.secondary = {"EIpu-e1": self.cost, "EIpu-e0.5": self.cost, "CEI-feas": self.con,
                          "CEI-nofeas": self.coninf}
        # the active metric is selected by name: it need not be the first key of the dictionary of output models
        self.heads["EIpu-e1-active-second"] = EIpuAcquisitionFunction({K: self.cost, A: self.active}, active_metric=A,
                                                                      exponent_cost=1.0)
        self.heads["CEI-feas-active-second"] = CEIAcquisitionFunction({C: self.con, A: self.active}, active_metric=A)
        self.secondary["EIpu-e1-active-second"] = self.cost
        self.secondary["CEI-feas-active-second"] = self.con
        if cfg["npend"]:
            self.heads["CEI-mixed"] = CEIAcquisitionFunction({A: self.active, CONSTRAINT_MIX_NAME: self.conmix}, active_metric=A)
            self.secondary["CEI-mixed"] = self.conmix
            # secondary model that does not fantasize (one mean column broadcast against nf columns)
            self.cost1 = _predictor(cfg, hp, K, YCOST, base + 5, False, fantasize=False)
            self.heads["EIpu-e1-cost1col"] = EIpuAcquisitionFunction({A: self.active, K: self.cost1},
                                                                     active_metric=A, exponent_cost=1.0)
            self.secondary["EIpu-e1-cost1col"] = self.cost1

    def inputs(self):
        return [np.array(p, dtype=float) for p in itertools.product(INPUT_LEVELS, repeat=self.cfg["d"])]


def spy_self_test():
    """Duplicate inputs and zero noise: the Cholesky factorisation must fail once and jitter must be added."""
    from syne_tune.optimizer.schedulers.searchers.bayesopt.gpautograd.posterior_state import GaussProcPosteriorState
    k = Matern52(1, ARD=False)
    k.initialize(force_reinit=True)
    X = np.array([[0.3], [0.3], [0.3]])
    SPY.reset()
    GaussProcPosteriorState(features=X, targets=np.zeros((3, 1)), mean=ZeroMeanFunction(), kernel=k,
                            noise_variance=np.array([0.0]))
    ok_jit = SPY.calls == 1 and SPY.jittered == 1
    SPY.reset()
    GaussProcPosteriorState(features=X, targets=np.zeros((3, 1)), mean=ZeroMeanFunction(), kernel=k,
                            noise_variance=np.array([0.1]))
    ok_nojit = SPY.calls == 1 and SPY.jittered == 0
    SPY.reset()
    return ok_jit and ok_nojit
