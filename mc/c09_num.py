"""C09 numerics: Richardson/Ridders extrapolated central differences and mpmath closed forms.

Nothing here imports syne_tune: these are the independent references.
"""
import math

import mpmath as mp

mp.mp.dps = 40

NTAB = 8          # steps h0, h0/2, ..., h0/128  (a superset of the (h, h/2, h/4) ladder of DESIGN C09)
CON = 2.0


def central_differences(fvals_plus, fvals_minus, h0):
    """fvals_plus[k] = f(x + h0/2^k e), fvals_minus[k] = f(x - h0/2^k e)."""
    out = []
    h = h0
    for fp, fm in zip(fvals_plus, fvals_minus):
        out.append((fp - fm) / (2.0 * h))
        h /= CON
    return out


def richardson(cds):
    """Richardson (Neville/Romberg) tableau over central differences with step ratio 2.

    a[j][i] removes the h^(2j) error term using steps h0/2^(i-j) .. h0/2^i. The diagonal a[k][k] is the
    full extrapolation over the first k+1 steps; it converges until round-off takes over. Returned is the
    diagonal entry whose two diagonal neighbours agree best with it, and
        E = max(|a[k][k]-a[k-1][k-1]|, |a[k+1][k+1]-a[k][k]|)
    as the error estimate (three consecutive extrapolations agree within E: one accidental agreement of
    two entries is not enough). The estimate depends on function VALUES only - never on the gradient code
    under test.
    """
    n = len(cds)
    if n < 3 or not all(math.isfinite(c) for c in cds):
        return float("nan"), float("inf")
    a = [[0.0] * n for _ in range(n)]
    for i in range(n):
        a[0][i] = cds[i]
        fac = CON * CON
        for j in range(1, i + 1):
            a[j][i] = (a[j - 1][i] * fac - a[j - 1][i - 1]) / (fac - 1.0)
            fac *= CON * CON
    diag = [a[k][k] for k in range(n)]
    best, err = None, math.inf
    for k in range(2, n - 1):            # at least the (h, h/2, h/4) extrapolation
        e = max(abs(diag[k] - diag[k - 1]), abs(diag[k + 1] - diag[k]))
        if e < err:
            best, err = k, e
    if best is None or not math.isfinite(err):
        return float("nan"), float("inf")
    return diag[best], err


def fd_scalar(f, h0, ntab=NTAB):
    """Derivative of t -> f(t) at t=0 (f evaluated one point at a time)."""
    fp, fm = [], []
    h = h0
    for _ in range(ntab):
        fp.append(f(h))
        fm.append(f(-h))
        h /= CON
    return richardson(central_differences(fp, fm, h0))


def fd_one_sided(f, h0, sign, ntab=NTAB):
    """Derivative of t -> f(t) at t=0 from values at t = 0 and sign*h0/2^k only (never stepping to the other side):
    Richardson tableau over forward differences (error terms h, h^2, ...). Same error estimate as richardson()."""
    f0 = f(0.0)
    ds = []
    h = h0
    for _ in range(ntab):
        ds.append((f(sign * h) - f0) / (sign * h))
        h /= CON
    n = len(ds)
    if n < 3 or not all(math.isfinite(c) for c in ds):
        return float("nan"), float("inf")
    a = [[0.0] * n for _ in range(n)]
    for i in range(n):
        a[0][i] = ds[i]
        fac = CON
        for j in range(1, i + 1):
            a[j][i] = (a[j - 1][i] * fac - a[j - 1][i - 1]) / (fac - 1.0)
            fac *= CON
    diag = [a[k][k] for k in range(n)]
    best, err = None, math.inf
    for k in range(2, n - 1):
        e = max(abs(diag[k] - diag[k - 1]), abs(diag[k + 1] - diag[k]))
        if e < err:
            best, err = k, e
    if best is None or not math.isfinite(err):
        return float("nan"), float("inf")
    return diag[best], err


# ------------------------------------------------------------------ closed forms (mpmath)

def _phi(u):
    return mp.exp(-u * u / 2) / mp.sqrt(2 * mp.pi)


def _Phi(u):
    return mp.erfc(-u / mp.sqrt(2)) / 2


def ei_term(best, mean, std, jitter):
    """sigma * (u Phi(u) + phi(u)), u = (best - mean - jitter) / sigma  -- and the magnitude of the summands."""
    s = mp.mpf(std)
    u = (mp.mpf(best) - mp.mpf(mean) - mp.mpf(jitter)) / s
    val = s * (u * _Phi(u) + _phi(u))
    mag = s * (abs(u) * _Phi(u) + _phi(u))
    return val, mag


def ei_closed_form(bests, means, std, jitter):
    """Average over fantasies of the EI closed form. Returns (value, cancellation magnitude)."""
    vals = [ei_term(b, m, std, jitter) for b, m in zip(bests, means)]
    n = len(vals)
    return sum(v for v, _ in vals) / n, sum(m for _, m in vals) / n


def bcast(v, n):
    v = list(v)
    return v * n if len(v) == 1 and n > 1 else v


def eipu_closed_form(bests, means, std, jitter, costs, exponent, min_cost=1e-12):
    n = len(means)
    costs = bcast(costs, n)
    tot, mag = mp.mpf(0), mp.mpf(0)
    for b, m, c in zip(bests, means, costs):
        v, g = ei_term(b, m, std, jitter)
        w = mp.power(max(mp.mpf(c), mp.mpf(min_cost)), -mp.mpf(exponent))
        tot += v * w
        mag += g * w
    return tot / n, mag / n


def cei_closed_form(bests, means, std, jitter, cmeans, cstd, min_std=1e-12):
    """bests[f] is None where no feasible incumbent exists for fantasy f."""
    n = max(len(means), len(cmeans))
    means, cmeans, bests = bcast(means, n), bcast(cmeans, n), bcast(bests, n)
    tot, mag = mp.mpf(0), mp.mpf(0)
    sc = mp.mpf(cstd) + mp.mpf(min_std)
    for b, m, c in zip(bests, means, cmeans):
        p = _Phi(-mp.mpf(c) / sc)
        if b is None:
            tot += p
            mag += p
        else:
            v, g = ei_term(b, m, std, jitter)
            tot += v * p
            mag += g * p
    return tot / n, mag / n
