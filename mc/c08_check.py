"""C08 engine: per-kernel context (alphabet-level reference matrices), reference cases, and the checks that compare
the real posterior-state classes with the dense reference.  Used by mc.props.c08 (enumeration + wiring)."""
import itertools

import numpy as np
import mpmath

from . import env  # noqa: F401
from . import c08_dense as dn
from . import c08_tol as tl
from . import c08_impl as im
from .core import Coverage, Violation

from syne_tune.optimizer.schedulers.searchers.bayesopt.gpautograd.posterior_state import (  # noqa: E402
    IncrementalUpdateGPPosteriorState)
from syne_tune.optimizer.schedulers.searchers.bayesopt.gpautograd.gp_regression import (  # noqa: E402
    GaussianProcessRegression)

PROP = "C08"
GRID = (0.0, 0.25, 1.0)
NEAR = 1e-7
MP_COND = 1e5                 # reference switches to mpmath (50 digits) above this condition number
FLOOR = dn.MIN_POSTERIOR_VARIANCE
JITTER_FACTOR = 1e-9          # AddJitterOp ladder: sigsq + JITTER_FACTOR * max(1, mean diag) * 10^k   (documented)
MIN_CHOL_DIAG = 1e-10         # cholesky_update clamp (documented)


def alphabet(d):
    """Grid {0,.25,1}^d in lexicographic order followed by the near-duplicate of every grid point (each coordinate
    moved by 1e-7 towards the interior of the unit cube)."""
    grid = [list(p) for p in itertools.product(GRID, repeat=d)]
    near = [[x + NEAR if x < 1.0 else x - NEAR for x in p] for p in grid]
    return np.array(grid + near, dtype=float)


def point_index(d, coords, near=False):
    i = 0
    for c in coords:
        i = i * 3 + GRID.index(c)
    return i + (3 ** d if near else 0)


def dup_pattern(d, idx):
    """'dup' (an exact duplicate among the rows), 'neardup' (a grid point together with its 1e-7 neighbour),
    else 'distinct'."""
    n0 = 3 ** d
    s = list(idx)
    if len(set(s)) < len(s):
        return "dup"
    base = [i % n0 for i in s]
    if len(set(base)) < len(base):
        return "neardup"
    return "distinct"


class Viols:
    """First violation per structural key (+ counts)."""

    def __init__(self):
        self.first = {}
        self.count = {}

    def add(self, key, what, replay, sev=0.0):
        """Keeps, per key, the first violation — or the one with the largest severity `sev` when given."""
        self.count[key] = self.count.get(key, 0) + 1
        cur = self.first.get(key)
        if cur is None or sev > cur.sev:
            v = Violation(PROP, key, what, replay)
            v.sev = float(sev)
            self.first[key] = v

    def list(self):
        out = []
        for k, v in self.first.items():
            v.what = f"{v.what} [{self.count[k]} case(s) with this key in the task]"
            out.append(v)
        return out


class Ctx:
    """Everything that depends on (d, kernel spec, mean specs) only."""

    def __init__(self, d, fam, ks, means):
        self.d, self.fam = d, fam
        self.P = alphabet(d)
        self.N = self.P.shape[0]
        self.ks_requested = ks
        self.kernel_arg, self.kobj, mobjs = im.construct(ks, means)
        # GaussianProcessRegression wrappers around the *same* kernel / mean objects; their constructor resets every
        # parameter to its initial value, so they are created before the parameters are set
        self._gpr = {}
        if not isinstance(self.kernel_arg, tuple):
            for k, mobj in enumerate(mobjs):
                self._gpr[k] = GaussianProcessRegression(kernel=self.kobj, mean=mobj)
        self.ks, msa = im.apply(self.kobj, mobjs, ks, means)
        self.means = list(zip(msa, mobjs))
        P = self.P
        self.K = dn.kernel_matrix(self.ks, P, P, doc=True)
        self.KT = dn.kernel_matrix(self.ks, P, P, doc=False)
        self.dK = tl.kernel_err(self.ks, P, P)
        self.kd = dn.kernel_diag(self.ks, P)
        self.dkd = tl.diag_err(self.ks, P)
        self.gap = tl.textbook_gap(self.ks, self.kd[:, None], self.kd[None, :])
        # diagonal() minus diag(forward()): the exact size of the documented sqrt-safeguard effect on k(x,x)
        self.dgap = self.kd - np.diag(self.K)
        self.mv = [dn.mean_vector(msa, P, self.ks) for msa, _ in self.means]
        self.dmv = [tl.mean_err(msa, self.ks, P) for msa, _ in self.means]
        self._kmp = {}
        self._kdmp = {}
        self._mvmp = {}
        self.cov = Coverage()
        self.V = Viols()
        self.keys = set()          # distinct non-trivial (config, data) cases
        self.ratio = {}
        self.all_idx = tuple(range(self.N))

    # ---- mpmath caches
    def kmp(self, rows, cols):
        with mpmath.workdps(dn.MP_DPS):
            M = mpmath.matrix(len(rows), len(cols))
            for a, i in enumerate(rows):
                for b, j in enumerate(cols):
                    key = (i, j) if i <= j else (j, i)
                    v = self._kmp.get(key)
                    if v is None:
                        v = dn.kernel_entry_mp(self.ks, self.P[key[0]], self.P[key[1]], doc=True)
                        self._kmp[key] = v
                    M[a, b] = v
            return M

    def kdmp(self, rows):
        out = []
        for i in rows:
            v = self._kdmp.get(i)
            if v is None:
                v = dn.kernel_diag(self.ks, self.P[i:i + 1], mp=True)[0]
                self._kdmp[i] = v
            out.append(v)
        return out

    def mvmp(self, k, rows):
        out = []
        for i in rows:
            v = self._mvmp.get((k, i))
            if v is None:
                v = dn.mean_vector(self.means[k][0], self.P[i:i + 1], self.ks, mp=True)[0]
                self._mvmp[(k, i)] = v
            out.append(v)
        return out

    def gpr(self, k):
        """GaussianProcessRegression around the same kernel / mean objects (None for the tuple form)."""
        return self._gpr.get(k)

    def note_ratio(self, kind, diff, tol):
        with np.errstate(all="ignore"):
            r = float(np.nanmax(np.abs(diff) / tol)) if np.size(diff) else 0.0
        if r > self.ratio.get(kind, 0.0):
            self.ratio[kind] = r

    def finish(self):
        for k, v in self.ratio.items():
            self.cov.extra["max_ratio_" + k] = round(v, 6) if np.isfinite(v) else 1e300
        self.cov.add("distinct_nontrivial", len(self.keys))
        return self.cov, self.V.list()


class RefCase:
    """Dense reference for one training set (rows = alphabet indices `idx`, in this order).

    diag_add: per-point noise (n,);  Y (n, m) float targets;  colmean: mean index per column;
    extra_diag: admissible extra perturbation of A's diagonal (documented NUMERICAL_JITTER gap of appended points);
    textbook=True uses the safeguard-free kernel (numpy only) with the documented gap as admissible perturbation.
    """

    def __init__(self, ctx, idx, diag_add, Y, colmean, extra_diag=None, textbook=False):
        self.ctx = ctx
        self.idx = tuple(idx)
        n = len(self.idx)
        self.n = n
        ii = np.array(self.idx)
        self.ii = ii
        self.colmean = list(colmean)
        self.Y = np.asarray(Y, dtype=float).reshape(n, -1)
        self.diag_add = np.broadcast_to(np.asarray(diag_add, dtype=float), (n,)).copy()
        self.textbook = textbook
        Kmat = ctx.KT if textbook else ctx.K
        Ktr = Kmat[np.ix_(ii, ii)]
        R = np.stack([self.Y[:, c] - ctx.mv[k][ii] for c, k in enumerate(self.colmean)], axis=1)
        gp = dn.DenseGP(Ktr, self.diag_add, R)
        self.cond = gp.cond()
        self.mp = False
        if self.cond > MP_COND and not textbook:
            with mpmath.workdps(dn.MP_DPS):
                Rmp = mpmath.matrix(n, R.shape[1])
                mvs = {k: ctx.mvmp(k, self.idx) for k in set(self.colmean)}
                for c, k in enumerate(self.colmean):
                    for i in range(n):
                        Rmp[i, c] = mpmath.mpf(float(self.Y[i, c])) - mvs[k][i]
            gp = dn.DenseGPmp(ctx.kmp(self.idx, self.idx), self.diag_add, Rmp)
            self.mp = True
        self.gp = gp
        dK = ctx.dK[np.ix_(ii, ii)]
        if textbook:
            dK = dK + ctx.gap[np.ix_(ii, ii)]
        dm = np.max(np.stack([ctx.dmv[k][ii] for k in set(self.colmean)], axis=0), axis=0)
        self.B = tl.Bounds(gp.A, gp.Ainv, gp.alpha, gp.R, dK, dm, extra_diag)
        self.singular = self.B.singular
        self._at = {}
        self._quad = None

    def at(self, tidx):
        """Reference predictions at alphabet points tidx: dict(mean (nt,m), var (nt,) unfloored, tol_mean, tol_var,
        W, Ks, prior)."""
        tidx = tuple(tidx)
        r = self._at.get(tidx)
        if r is not None:
            return r
        ctx = self.ctx
        tt = np.array(tidx)
        Kmat = ctx.KT if self.textbook else ctx.K
        Ks = Kmat[np.ix_(self.ii, tt)]
        kss = ctx.kd[tt]
        if self.mp:
            W, var = self.gp.weights_var(ctx.kmp(self.idx, tidx), ctx.kdmp(tidx))
        else:
            W, var = self.gp.weights_var(Ks, kss)
        mt = np.stack([ctx.mv[k][tt] for k in self.colmean], axis=1)
        dmt = np.max(np.stack([ctx.dmv[k][tt] for k in set(self.colmean)], axis=0), axis=0)
        mean = Ks.T @ self.gp.alpha + mt
        dKs = ctx.dK[np.ix_(self.ii, tt)]
        if self.textbook:
            dKs = dKs + ctx.gap[np.ix_(self.ii, tt)]
        r = dict(mean=mean, var=var, var_alt=var - ctx.dgap[tt], W=W, Ks=Ks, dKs=dKs, prior=kss,
                 tol_mean=self.B.mean(W, Ks, dKs, dmt, mean),
                 tol_var=self.B.var(W, Ks, dKs, kss,
                                    ctx.dkd[tt] + (np.diag(ctx.gap)[tt] if self.textbook else 0.0)))
        self._at[tidx] = r
        return r

    def cov_at(self, tidx):
        ctx = self.ctx
        tt = np.array(tidx)
        r = self.at(tidx)
        Ktt = ctx.K[np.ix_(tt, tt)]
        if self.mp:
            C = self.gp.post_cov(ctx.kmp(self.idx, tidx), ctx.kmp(tidx, tidx))
        else:
            C = self.gp.post_cov(r["Ks"], Ktt)
        tol = self.B.cov(r["W"], r["Ks"], r["dKs"], Ktt, ctx.dK[np.ix_(tt, tt)])
        return C, tol

    def nlml(self, col):
        if self._quad is None:
            self._quad = self.gp.quad()
            self._logdet = self.gp.logdet
            # sum_i |log A-pivot_i| is bounded by the sum of |log| of the eigen-range; use n*max|log diag-ish| proxy
            d = np.abs(np.diag(self.gp.A))
            self._logabs = float(self.n * max(abs(np.log(d.max())), abs(np.log(max(self.diag_add.min(), 1e-300))), 1.0))
        val = 0.5 * (self.n * np.log(2 * np.pi) + self._logdet + self._quad[col])
        return float(val), float(self.B.nlml(col, self._logabs, val))


# ------------------------------------------------------------------------------- checks

def _pat(ctx, idx, m):
    n = len(idx)
    return f"{ctx.fam}:{'n=1' if n == 1 else 'n>1'}:{dup_pattern(ctx.d, idx)}:{'m=1' if m == 1 else 'm>1'}"


def _fmt(a):
    return np.array2string(np.asarray(a, dtype=float).ravel()[:6], precision=12, separator=",")


def compare(ctx, kind, pat, got, ref, tol, replay, note="", record=True, alt=None):
    """|got - ref| <= tol elementwise (or, if given, |got - alt| <= tol elementwise), else a violation with key
    kind:pat.  record=False only probes (nothing is recorded or counted)."""
    got = np.asarray(got, dtype=float)
    ref = np.asarray(ref, dtype=float)
    if record:
        ctx.cov.add("evaluations")
    if got.shape != ref.shape:
        if record:
            ctx.V.add(f"{kind}-shape:{pat}", f"shape {got.shape} != reference {ref.shape} {note}", replay)
        return False
    diff = got - ref
    bad = ~(np.abs(diff) <= tol)
    if bad.any() and alt is not None:
        diff2 = got - np.asarray(alt, dtype=float)
        if not (~(np.abs(diff2) <= tol)).any():
            diff, bad = diff2, ~(np.abs(diff2) <= tol)
    if record:
        ctx.note_ratio(kind.replace("/", "_"), diff, tol)
    if bad.any():
        if record:
            tolb = np.ravel(np.broadcast_to(tol, diff.shape))
            j = int(np.argmax(np.where(np.isfinite(diff), np.abs(diff) / tol, np.inf)))
            ctx.V.add(f"{kind}:{pat}",
                      f"{kind} differs from the dense reference beyond the rounding bound: worst |diff|/tol="
                      f"{float(np.abs(diff).ravel()[j] / tolb[j]):.3g} got={got.ravel()[j]!r} "
                      f"ref={ref.ravel()[j]!r} tol={float(tolb[j]):.3g} {note}", replay)
        return False
    return True


def detect_jitter(ctx, st, rc, noise, pat, replay):
    """AddJitterOp: effective sigsq recovered from diag(L L^T) - diag(K).  Returns jitter (0.0 if none) or None if
    it is not a value of the documented ladder (violation recorded)."""
    L = np.asarray(st.chol_fact)
    eff = np.sum(L * L, axis=1) - np.diag(ctx.K[np.ix_(rc.ii, rc.ii)])
    jit = float(np.median(eff)) - noise
    slack = 8.0 * float(np.max(np.diag(rc.B.E)))
    if abs(jit) <= slack:
        return 0.0
    Kd = np.diag(ctx.K[np.ix_(rc.ii, rc.ii)])
    j0 = JITTER_FACTOR * max(1.0, float(np.mean(Kd)))
    k = round(np.log10(max(jit, 1e-300) / j0))
    lad = j0 * 10.0 ** k
    if jit > 0 and 0 <= k <= 12 and abs(jit - lad) <= 1e-6 * lad + slack:
        # documented: sigsq_final is *minimal* on the ladder.  The previous ladder value must be one at which the
        # factorisation can fail, i.e. the reference matrix is not safely positive definite there (smallest
        # eigenvalue within the rounding perturbation E of zero); borderline cases are accepted either way.
        prev = noise + (lad / 10.0 if k > 0 else 0.0)
        Aprev = ctx.K[np.ix_(rc.ii, rc.ii)] + prev * np.eye(rc.n)
        lam = np.linalg.eigvalsh(Aprev)
        margin = 4.0 * float(np.linalg.norm(rc.B.E, 2))
        if lam[0] > margin:
            ctx.V.add(f"jitter/not-minimal:{pat}",
                      f"jitter {lad:g} was added although K + {prev:g} I is safely positive definite "
                      f"(lambda_min {lam[0]:.3g} > rounding margin {margin:.3g})", replay)
            return None
        ctx.cov.outcome("jitter_added_from_scratch")
        return lad
    ctx.V.add(f"chol/diag-not-K-plus-noise-or-ladder-jitter:{pat}",
              f"diag(L L^T) - diag(K) = {float(np.median(eff))!r} is neither the noise variance {noise} nor "
              f"noise + 1e-9*max(1,mean diag)*10^k", replay)
    return None


def check_predict(ctx, st, rc, cols, tidx, pat, replay, kind="predict", prior_check=True, record=True, pred=None):
    """st.predict(P[tidx]) against reference columns `cols` of rc.  The prior variance k(x,x) is accepted both as
    KernelFunction.diagonal() (documented, = textbook value) and as the diagonal of forward() (with the sqrt
    safeguard): they differ by <= NUMERICAL_JITTER/2 * k(x,x), additively and without amplification."""
    try:
        mu, var = st.predict(ctx.P[np.array(tidx)]) if pred is None else pred
    except Exception as e:  # noqa: BLE001
        if record:
            ctx.V.add(f"exc/{kind}:{type(e).__name__}:{pat}", f"{kind} raised {type(e).__name__}: {e}", replay)
        return False
    mu = np.asarray(mu)
    var = np.asarray(var)
    r = rc.at(tidx)
    ok = compare(ctx, f"{kind}/mean", pat, mu, r["mean"][:, cols], r["tol_mean"][:, cols], replay, record=record)
    ref_var = np.maximum(r["var"], FLOOR)
    ok &= compare(ctx, f"{kind}/var", pat, var, ref_var, r["tol_var"], replay, record=record,
                  alt=np.maximum(r["var_alt"], FLOOR))
    if prior_check and record and var.shape == ref_var.shape:
        ctx.cov.add("evaluations")
        if not np.all(var >= FLOOR):
            ctx.V.add(f"{kind}/var-below-floor:{pat}", f"variance {_fmt(var[~(var >= FLOOR)])} < floor {FLOOR}", replay)
            ok = False
        hi = np.maximum(r["prior"], FLOOR) + r["tol_var"]
        if not np.all(var <= hi):
            ctx.V.add(f"{kind}/var-above-prior:{pat}",
                      f"posterior variance {_fmt(var[~(var <= hi)])} > prior variance {_fmt(r['prior'][~(var <= hi)])}",
                      replay)
            ok = False
    return bool(ok)


def check_nlml(ctx, st, rc, col, pat, replay, kind="nlml", record=True, val=None):
    try:
        val = float(st.neg_log_likelihood()) if val is None else val
    except Exception as e:  # noqa: BLE001
        if record:
            ctx.V.add(f"exc/{kind}:{type(e).__name__}:{pat}", f"{kind} raised {type(e).__name__}: {e}", replay)
        return False
    ref, tol = rc.nlml(col)
    return compare(ctx, kind, pat, val, ref, tol, replay, record=record)


def check_joint(ctx, st, rc, cols, tidx, pat, replay):
    """sample_joint with unit-vector normals: recover the covariance factor F exactly; F lower-triangular,
    F F^T = posterior covariance + jitter*I (jitter = documented 1e-5, or the next ladder value), identical for every
    fantasy column; the sample offset equals the predictive mean."""
    nt = len(tidx)
    Xt = ctx.P[np.array(tidx)]
    try:
        S = np.asarray(st.sample_joint(Xt, num_samples=nt, random_state=im.UnitVectorNormal()))
        Z = np.asarray(st.sample_joint(Xt, num_samples=1, random_state=_ZeroNormal()))
    except Exception as e:  # noqa: BLE001
        ctx.V.add(f"exc/sample_joint:{type(e).__name__}:{pat}", f"sample_joint raised {type(e).__name__}: {e}", replay)
        return
    m = len(cols)
    ctx.cov.add("evaluations")
    want = (nt, nt) if m == 1 else (nt, m, nt)
    if S.shape != want:
        ctx.V.add(f"sample_joint/shape:{pat}", f"samples shape {S.shape}, expected {want}", replay)
        return
    S = S.reshape(nt, m, nt)
    Z = Z.reshape(nt, m)
    r = rc.at(tidx)
    # zero draw -> the mean
    compare(ctx, "sample_joint/mean", pat, Z, r["mean"][:, cols], r["tol_mean"][:, cols], replay)
    F = S[:, 0, :] - Z[:, 0:1]
    for j in range(1, m):
        Fj = S[:, j, :] - Z[:, j:j + 1]
        scale = tl.U * 8 * (np.abs(S[:, j, :]) + np.abs(Z[:, j:j + 1]) + np.abs(S[:, 0, :]) + np.abs(Z[:, 0:1]))
        compare(ctx, "sample_joint/factor-per-column", pat, Fj, F, scale + 1e-300, replay)
    C, tolC = rc.cov_at(tidx)
    absmean = np.abs(Z).max(axis=1)
    # F = (F + mean) - mean: each entry carries 2u(|F|+|mean|) cancellation error
    eF = 4 * tl.U * (np.abs(F) + absmean[:, None])
    upper = np.triu(F, 1)
    ctx.cov.add("evaluations")
    if not np.all(np.abs(upper) <= np.triu(eF, 1)):
        ctx.V.add(f"sample_joint/factor-not-lower-triangular:{pat}",
                  f"recovered covariance factor has upper-triangular entries up to {np.abs(upper).max():.3g}", replay)
        return
    G = F @ F.T
    eG = np.abs(F) @ eF.T + eF @ np.abs(F).T + tl.gamma(nt + 2) * (np.abs(F) @ np.abs(F).T)
    dg = np.sqrt(np.abs(np.diag(G)))
    echol = tl.gamma(3 * nt + 3) * np.outer(dg, dg)
    tol = tolC + eG + echol
    jit = float(np.median(np.diag(G) - np.diag(C)))
    base = dn.JOINT_SAMPLE_JITTER
    slack = float(np.median(np.diag(tol)))
    used = base
    if abs(jit - base) > 4 * slack + 1e-9 * base:
        j0 = JITTER_FACTOR * max(1.0, float(np.mean(np.diag(C))))
        k = round(np.log10(max(jit - base, 1e-300) / j0))
        lad = base + j0 * 10.0 ** k
        if jit > base and 0 <= k <= 12 and abs(jit - lad) <= 1e-6 * lad + 4 * slack:
            prev = base + (j0 * 10.0 ** (k - 1) if k > 0 else 0.0)
            lam = np.linalg.eigvalsh(C + prev * np.eye(nt))
            margin = 4.0 * float(np.linalg.norm(tol, 2))
            if lam[0] > margin:
                ctx.V.add(f"sample_joint/jitter-not-minimal:{pat}",
                          f"extra jitter {lad - base:g} although posterior covariance + {prev:g} I is safely positive "
                          f"definite (lambda_min {lam[0]:.3g} > margin {margin:.3g})", replay)
                return
            used = lad
            ctx.cov.outcome("jitter_added_sample_joint")
        # else: fall through, the comparison below reports it
    compare(ctx, "sample_joint/cov", pat, G, C + used * np.eye(nt), tol, replay,
            note=f"(jitter assumed {used:g})")


class _ZeroNormal:
    def normal(self, size=None, **kw):
        return np.zeros(size)


def check_gpr(ctx, k, noise, rc, col, Ycol, tidx, pat, replay):
    """Same data through GaussianProcessRegression (likelihood -> GaussProcPosteriorState)."""
    g = ctx.gpr(k)
    if g is None:
        return
    X = ctx.P[rc.ii]
    try:
        # noise variance alone (set_params would re-encode every kernel parameter as well)
        g.likelihood.encoding_noise.set(g.likelihood.noise_variance_internal, noise)
        data = {"features": X, "targets": np.asarray(Ycol, dtype=float).reshape(-1, 1)}
        g.recompute_states(data)
        preds = g.predict(ctx.P[np.array(tidx)])
        nl = float(g.likelihood(data))
        nv = float(g.likelihood.get_noise_variance())
    except Exception as e:  # noqa: BLE001
        ctx.V.add(f"exc/gpr:{type(e).__name__}:{pat}", f"GaussianProcessRegression path raised {type(e).__name__}: {e}",
                  replay)
        return
    if abs(nv - noise) > 4 * tl.U * noise:
        ctx.V.add(f"gpr/noise-variance:{pat}", f"noise variance set {noise}, read back {nv}", replay)
        return
    mu, var = preds[0]
    r = rc.at(tidx)
    compare(ctx, "gpr/mean", pat, np.asarray(mu).reshape(-1), r["mean"][:, col], r["tol_mean"][:, col], replay)
    compare(ctx, "gpr/var", pat, np.asarray(var), np.maximum(r["var"], FLOOR), r["tol_var"], replay,
            alt=np.maximum(r["var_alt"], FLOOR))
    ref, tol = rc.nlml(col)
    compare(ctx, "gpr/nlml", pat, nl, ref, tol, replay)


def make_state(ctx, idx, k, Y, noise, cls=IncrementalUpdateGPPosteriorState):
    X = ctx.P[np.array(idx)]
    return cls(features=X, targets=np.asarray(Y, dtype=float), mean=ctx.means[k][1], kernel=ctx.kernel_arg,
               noise_variance=np.array([noise]))
