"""C16 — catalogue of worlds (real scheduler + driver) whose every reachable state is a crash point.

Families
  c03 / c04 / c05 : the finished stopping / promotion / synchronous Hyperband worlds (oracles stripped)
  fifo            : FIFOScheduler x {random, grid, bayesopt} with the searcher options that own extra state
  hbgp            : HyperbandScheduler x GP multi-fidelity searcher (random phase and real BO)
  hbgrid          : HyperbandScheduler x GridSearcher
  misc            : PBT, DEHB, median stopping rule, synchronous HB (scheds.make)
"""
from . import env
from .schedx import World
from .world import table_from_perms

GP_TINY = dict(opt_nstarts=1, opt_maxiter=5, num_init_candidates=10)


def _debug_printer():
    from syne_tune.optimizer.schedulers.searchers.bayesopt.utils.debug_log import DebugLogPrinter
    return DebugLogPrinter()


def _spaces(name):
    from syne_tune.config_space import uniform, randint, choice
    if name == "cont":
        return {"a": uniform(0, 1), "b": randint(0, 9)}
    if name == "fin6":
        return {"a": choice([0.1, 0.5, 0.9]), "b": choice([1, 2])}
    if name == "fin8":
        return {"a": choice([0.1, 0.5, 0.9, 1.3]), "b": choice([1, 2])}
    if name == "int5":
        return {"a": randint(0, 4)}
    raise ValueError(name)


RESTRICT = {
    "cont": [{"a": round(0.1 + 0.13 * i, 3), "b": (3 * i) % 10} for i in range(6)],
    "fin6": [{"a": 0.1, "b": 1}, {"a": 0.5, "b": 2}, {"a": 0.9, "b": 1}, {"a": 0.9, "b": 2}],
    "fin8": [{"a": 0.1, "b": 1}, {"a": 0.5, "b": 2}, {"a": 0.9, "b": 1}, {"a": 1.3, "b": 2}, {"a": 1.3, "b": 1}],
}
P2E = {
    "cont": [{"a": 0.25, "b": 3}, {"a": 0.75, "b": 7}],
    "fin6": [{"a": 0.5, "b": 2}, {"a": 0.9, "b": 1}],
    "fin8": [{"a": 0.5, "b": 2}, {"a": 1.3, "b": 1}],
    "int5": [{"a": 3}],
}


def search_options(cfg):
    so = {"debug_log": bool(cfg.get("dl", False))}
    sp = cfg.get("space", "cont")
    if cfg.get("allow_dup"):
        so["allow_duplicates"] = True
    if cfg.get("restrict"):
        so["restrict_configurations"] = [dict(c) for c in RESTRICT[sp]]
    if cfg.get("searcher") == "grid":
        so["shuffle_config"] = bool(cfg.get("shuffle", True))
    if cfg.get("searcher") == "bayesopt":
        so.update(GP_TINY)
        so["num_init_random"] = cfg.get("nir", 10 ** 6)
        for k in ("opt_skip_init_length", "opt_skip_period", "opt_warmstart", "model", "gp_resource_kernel", "resource_acq"):
            if k in cfg:
                so[k] = cfg[k]
        so.update(cfg.get("so_extra", {}))   # e.g. optimiser settings closer to the library defaults
    return so


def variant(cfg):
    """non-default searcher flags, canonical order -> part of the structural key"""
    v = []
    if cfg.get("searcher", "random") == "random":
        v.append("debug_log=%s" % bool(cfg.get("dl", False)))
    if cfg.get("searcher") == "grid":
        v.append("shuffle" if cfg.get("shuffle", True) else "noshuffle")
    if cfg.get("allow_dup"):
        v.append("allow_duplicates")
    if cfg.get("restrict"):
        v.append("restrict_configurations")
    if cfg.get("searcher") == "bayesopt":
        v.append("random-phase" if cfg.get("nir", 10 ** 6) >= 10 ** 6 else "bo")
    return ",".join(v)


def _table(cfg, T, R):
    perms = {int(k): tuple(v) for k, v in cfg.get("perms", {}).items()}
    sign = 1.0 if cfg.get("mode", "min") == "min" else -1.0
    return table_from_perms(T, R, perms, sign)


def _p2e(cfg):
    n = cfg.get("p2e")
    if n is None:
        return None  # library default: one mid-point configuration
    return [dict(c) for c in P2E[cfg.get("space", "cont")][:n]]


def build_world(cfg):
    """fresh World (no oracles) for a C16 configuration"""
    fam = cfg["fam"]
    if fam in ("c03", "c04", "c05"):
        from .props import c03, c04, c05
        mod = {"c03": c03, "c04": c04, "c05": c05}[fam]
        w = mod.build_world(cfg["inner"])
        w.oracles = []
        if cfg.get("dl") and getattr(w.s, "searcher", None) is not None and hasattr(w.s.searcher, "_debug_log"):
            # same effect as search_options={'debug_log': True}: RandomSearcher.__init__ does exactly this assignment
            w.s.searcher._debug_log = _debug_printer()
        return w
    if fam == "fifo":
        from syne_tune.optimizer.schedulers import FIFOScheduler
        space = _spaces(cfg.get("space", "cont"))
        s = FIFOScheduler(space, searcher=cfg["searcher"], metric="m", mode=cfg.get("mode", "min"),
                          random_seed=cfg["seed"], search_options=search_options(cfg),
                          points_to_evaluate=_p2e(cfg))
        s.set_time_keeper(env.ConstTimeKeeper())
        T, R = cfg["T"], cfg.get("R", 2)
        spec = dict(W=cfg["W"], T=T, R=R, table=_table(cfg, T, R), brackets=0, fail_budget=cfg.get("F", 0),
                    id0=cfg.get("id0", 0))
        return World(s, spec)
    if fam in ("hbgp", "hbgrid", "hbrand"):
        from syne_tune.optimizer.schedulers import HyperbandScheduler
        space = _spaces(cfg.get("space", "cont"))
        R = cfg.get("R", 4)
        kw = dict(searcher=cfg["searcher"], type=cfg["type"], metric="m", mode=cfg.get("mode", "min"),
                  resource_attr="epoch", grace_period=1, reduction_factor=2, brackets=cfg.get("brackets", 1),
                  random_seed=cfg["seed"], search_options=search_options(cfg), points_to_evaluate=_p2e(cfg))
        if "searcher_data" in cfg:
            kw["searcher_data"] = cfg["searcher_data"]
        mra = None
        if cfg.get("use_mra", True):
            space["epochs"] = R
            kw["max_resource_attr"] = mra = "epochs"
        else:
            kw["max_t"] = R
        if cfg["type"] == "cost_promotion":
            kw["cost_attr"] = "cost"
        s = HyperbandScheduler(space, **kw)
        s.set_time_keeper(env.ConstTimeKeeper())
        T = cfg["T"]
        nb = cfg.get("brackets", 1)
        # rngb: brackets are sampled by the scheduler's own RNG (no one-hot seam) -> the bracket RNG must survive restore
        spec = dict(W=cfg["W"], T=T, R=R, table=_table(cfg, T, R), brackets=nb if (nb > 1 and not cfg.get("rngb")) else 0,
                    max_resource_attr=mra, scratch=cfg.get("scratch", False), fail_budget=cfg.get("F", 0),
                    id0=cfg.get("id0", 0))
        return World(s, spec)
    if fam == "misc":
        from . import scheds
        R = cfg.get("R", 4)
        kw = dict(cfg.get("kw", {}))
        s, info = scheds.make(cfg["kind"], mode=cfg.get("mode", "min"), seed=cfg["seed"], R=R,
                              mra=cfg.get("use_mra", True), **kw)
        T = cfg["T"]
        spec = dict(W=cfg["W"], T=T, R=R, table=_table(cfg, T, R), brackets=0, max_resource_attr=info["mra"],
                    scratch=cfg.get("scratch", False), fail_budget=cfg.get("F", 0))
        return World(s, spec)
    raise ValueError(fam)


def label(cfg):
    return {k: cfg[k] for k in sorted(cfg)}


# ------------------------------------------------------------------------------ catalogue

def _take(lst, n, rot):
    """n entries spread over lst (stride), rotated by rot — quick-tier sub-sample, seed only rotates"""
    if n >= len(lst):
        return list(lst)
    stride = len(lst) / float(n)
    return [lst[(int(i * stride) + rot) % len(lst)] for i in range(n)]


def configs(tier, seed):
    from .props import c03, c04, c05
    q = tier == "quick"
    out = []

    def add(**cfg):
        cfg.setdefault("seed", seed)
        cfg.setdefault("h", 3 if q else 4)
        cfg.setdefault("max_paths", 350 if q else 1300)
        cfg.setdefault("max_twins", 25000 if q else 100000)
        out.append(cfg)

    # --- reused worlds: stopping / promotion / synchronous Hyperband
    for fam, mod, n in (("c03", c03, 6 if q else 28), ("c04", c04, 8 if q else 36), ("c05", c05, 5 if q else 20)):
        inner = mod.configs(tier, seed)
        # order by (type, brackets) so that the stride visits every kind
        inner.sort(key=lambda c: (str(c.get("type", c.get("sys"))), c.get("brackets", 0), c.get("per_bracket", 0),
                                  c.get("mode"), str(c.get("rs", "")), str(c.get("perms"))))
        for i, c in enumerate(_take(inner, n, seed)):
            c = dict(c)
            c.pop("max_states", None)
            add(fam=fam, inner=c, dl=(i % 2 == 1), ms=(70 if q else (300 if fam == "c03" else 400)), spines=2)
    # --- FIFO x random searcher
    for dl in (False, True):
        add(fam="fifo", searcher="random", dl=dl, W=2, T=5, R=2, p2e=2, ms=120 if q else 600, F=1)
        add(fam="fifo", searcher="random", dl=dl, allow_dup=True, W=2, T=5, R=1, p2e=1, F=1, space="int5",
            ms=120 if q else 600, drain=True)
        add(fam="fifo", searcher="random", dl=dl, restrict=True, W=2, T=7, R=1, p2e=0, ms=100 if q else 500,
            drain=True)
        add(fam="fifo", searcher="random", dl=dl, restrict=True, space="fin6", W=2, T=7, R=1, p2e=1,
            ms=100 if q else 500, drain=True)
        add(fam="fifo", searcher="random", dl=dl, space="fin6", W=2, T=8, R=1, p2e=None, ms=100 if q else 500,
            drain=True)
        if not q:
            add(fam="fifo", searcher="random", dl=dl, restrict=True, allow_dup=True, space="fin8", W=2, T=7, R=1,
                p2e=1, F=1, ms=500, drain=True)
            add(fam="fifo", searcher="random", dl=dl, W=3, T=5, R=1, p2e=None, ms=500)
    # --- FIFO x grid searcher (the harness seed is never the library's default seed)
    for shuffle in (True, False):
        for allow_dup in (False, True):
            for p2e in ((0, 2) if q else (0, 1, 2, None)):
                add(fam="fifo", searcher="grid", shuffle=shuffle, allow_dup=allow_dup, space="fin6", W=2,
                    T=8, R=1, p2e=p2e, ms=80 if q else 400, drain=True)
    if not q:
        add(fam="fifo", searcher="grid", shuffle=True, space="fin8", W=3, T=8, R=1, p2e=1, ms=400, drain=True)
    # --- Hyperband x grid / random with initial points
    add(fam="hbgrid", searcher="grid", type="promotion", shuffle=True, space="fin6", W=2, T=5, R=4, p2e=1,
        ms=80 if q else 500, drain=True, spines=2)
    add(fam="hbrand", searcher="random", type="stopping", dl=True, W=2, T=5, R=4, p2e=2, ms=80 if q else 500, spines=2,
        F=1)
    if not q:
        add(fam="hbgrid", searcher="grid", type="stopping", shuffle=False, space="fin6", W=2, T=5, R=4, p2e=0,
            ms=500, drain=True, spines=2)
        add(fam="hbrand", searcher="random", type="promotion", dl=True, restrict=True, W=2, T=5, R=4, p2e=0, ms=500,
            spines=2)
    add(fam="hbrand", searcher="random", type="stopping", dl=True, brackets=2, rngb=True, W=2, T=5, R=4, p2e=0,
        ms=80 if q else 500, spines=2)
    if not q:
        add(fam="hbrand", searcher="random", type="promotion", dl=True, brackets=3, rngb=True, W=2, T=5, R=4, p2e=0,
            ms=500, spines=2)
    # --- GP searchers in their random phase
    add(fam="fifo", searcher="bayesopt", space="fin6", W=2, T=8, R=1, p2e=1, ms=50 if q else 300, drain=True, F=1)
    add(fam="fifo", searcher="bayesopt", W=2, T=5, R=2, p2e=2, ms=60 if q else 300, F=1)
    add(fam="hbgp", searcher="bayesopt", type="promotion", W=2, T=4, R=4, p2e=1, ms=60 if q else 300, spines=2, F=1)
    add(fam="hbgp", searcher="bayesopt", type="stopping", W=2, T=4, R=4, p2e=None, ms=60 if q else 300, spines=2)
    if not q:
        add(fam="fifo", searcher="bayesopt", allow_dup=True, space="int5", W=2, T=5, R=1, p2e=1, ms=300, F=1)
        add(fam="fifo", searcher="bayesopt", restrict=True, W=2, T=6, R=1, p2e=0, ms=300, drain=True)
        add(fam="hbgp", searcher="bayesopt", type="promotion", searcher_data="all", W=2, T=4, R=4, p2e=0, ms=300,
            spines=2)
        add(fam="hbgp", searcher="bayesopt", type="pasha", W=2, T=4, R=4, p2e=0, ms=300, spines=2)
    # --- PBT, DEHB, median rule, synchronous HB via scheds
    add(fam="misc", kind="pbt", W=2, T=5, R=3, use_mra=False, ms=100 if q else 700, spines=3)
    add(fam="misc", kind="dehb", W=2, T=6, R=4, ms=100 if q else 700, spines=3)
    add(fam="misc", kind="median", W=2, T=5, R=3, ms=100 if q else 700, spines=2, F=1)
    add(fam="misc", kind="rea", W=2, T=6, R=3, ms=60 if q else 500, spines=2)
    add(fam="misc", kind="hb-rush-prom", W=2, T=5, R=4, ms=60 if q else 500, spines=2)
    if not q:
        add(fam="misc", kind="pbt", W=3, T=6, R=4, use_mra=False, kw={"population_size": 3}, ms=700, spines=3,
            perms={"1": (2, 0, 1, 3, 5, 4), "2": (1, 2, 0, 4, 3, 5)})
        add(fam="misc", kind="dehb", W=3, T=7, R=4, mode="max", ms=700, spines=3)
        add(fam="misc", kind="shb", W=2, T=6, R=4, ms=500, spines=2)
        add(fam="misc", kind="hb-cost", W=2, T=5, R=4, ms=500, spines=2)
        add(fam="misc", kind="hb-rush-stop", W=2, T=5, R=4, ms=500, spines=2)
    # --- a few real-BO states (tiny optimiser settings); crash points = prefixes of spine histories only
    add(fam="fifo", searcher="bayesopt", nir=2, W=2, T=6, R=1, p2e=1, ms=0, spines=2 if q else 3, h=2, bo=True,
        perms={"1": (2, 0, 3, 1, 4, 5)}, opt_warmstart=True)
    # three workers and trial ids 8..13: two or three pending trials whose ids cross 9 -> 10 (string order != numeric order)
    add(fam="fifo", searcher="bayesopt", nir=2, W=3, T=7, R=1, p2e=1, ms=0, spine_policies=["N", "S"], h=2, bo=True, id0=9,
        perms={"1": (2, 0, 3, 1, 4, 5, 6)})
    # the same with optimiser settings close to the library defaults (many candidates, long local optimisation): what a
    # restored searcher does differently shows in the first digits, far above the round-off of the parameter round trip
    add(fam="fifo", searcher="bayesopt", nir=2, W=3, T=7, R=1, p2e=1, ms=0, spine_policies=["N"], h=1, bo=True, id0=9,
        perms={"1": (2, 0, 3, 1, 4, 5, 6)}, so_extra=dict(opt_nstarts=2, opt_maxiter=50, num_init_candidates=250))
    # one worker (no pending trial when a suggestion is asked for) and an odd number of initial candidates: Thompson scoring
    # draws an odd number of normal variates per suggestion, so the generator carries a cached Gaussian across suggestions
    add(fam="fifo", searcher="bayesopt", nir=2, W=1, T=6, R=1, p2e=1, ms=0, spines=2, h=2, bo=True,
        perms={"1": (2, 0, 3, 1, 4, 5)}, so_extra=dict(num_init_candidates=9))
    if not q:
        add(fam="fifo", searcher="bayesopt", nir=2, W=2, T=6, R=1, p2e=0, ms=0, spines=2, h=2, bo=True,
            perms={"1": (2, 0, 3, 1, 4, 5)}, opt_skip_init_length=1, opt_skip_period=2)
        add(fam="hbgp", searcher="bayesopt", nir=2, type="promotion", W=3, T=5, R=2, p2e=1, ms=0, spine_policies=["N", "S", "R"], h=2,
            bo=True, id0=9, perms={"1": (1, 0, 3, 2, 4)})
    add(fam="hbgp", searcher="bayesopt", nir=2, type="stopping", W=2, T=5, R=2, p2e=1, ms=0, spines=2, h=2, bo=True,
        perms={"1": (1, 0, 3, 2, 4)})
    if not q:
        add(fam="hbgp", searcher="bayesopt", nir=2, type="promotion", W=2, T=4, R=2, p2e=1, ms=0, spines=2, h=2, bo=True,
            perms={"1": (1, 0, 3, 2)})
        add(fam="hbgp", searcher="bayesopt", nir=2, type="stopping", W=3, T=5, R=3, p2e=0, ms=0, spines=3, h=2, bo=True,
            perms={"1": (1, 0, 3, 2, 4)})
    return out
