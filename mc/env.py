"""Environment shims and seams shared by every engine.

Importing this module *before* anything from syne_tune
 * turns the yahpo/ConfigSpace binary-ABI ValueError into the ImportError the
   repository already handles,
 * silences logging,
 * offers the constant clock / one-hot bracket distribution seams.
Nothing in /repo is changed.
"""
import sys
import os
import logging
import warnings

sys.modules.setdefault("yahpo_gym", None)
sys.modules.setdefault("ConfigSpace", None)
warnings.filterwarnings("ignore")
logging.disable(logging.CRITICAL)

from datetime import datetime  # noqa: E402

import numpy as np  # noqa: E402

from syne_tune.backend.time_keeper import TimeKeeper  # noqa: E402

ASSUMPTIONS = [
    "sys.modules['yahpo_gym']=None and ['ConfigSpace']=None in the harness process "
    "(binary-ABI ValueError -> ImportError the repo handles)",
    "logging disabled; PYTHONHASHSEED fixed by ./check unless the check varies it itself",
]

DT0 = datetime(2020, 1, 1)


def seed() -> int:
    return int(os.environ.get("VERIF_SEED", "0"))


class ConstTimeKeeper(TimeKeeper):
    """Scheduler-side clock that never moves (owns FIFOScheduler._elapsed_time)."""

    def start_of_time(self):
        pass

    def time(self) -> float:
        return 0.0

    def time_stamp(self) -> datetime:
        return DT0

    def advance(self, step: float):
        pass


class OneHotBrackets:
    """Replacement for scheduler.bracket_distribution: the explorer picks the bracket."""

    def __init__(self, num_brackets: int):
        self.n = num_brackets
        self.b = 0

    def configure(self, scheduler):
        pass

    def __call__(self):
        p = np.zeros(self.n)
        p[self.b] = 1.0
        return p


def ncpu() -> int:
    try:
        return max(1, min(16, len(os.sched_getaffinity(0))))
    except Exception:
        return max(1, min(16, os.cpu_count() or 1))
