"""./check <ID> [--tier quick|thorough] [--replay file]"""
import argparse
import importlib
import json
import os
import sys
import traceback

from . import env  # noqa: F401  (import shims first)
from . import core


def main(argv=None):
    ap = argparse.ArgumentParser()
    ap.add_argument("prop")
    ap.add_argument("--tier", default=os.environ.get("VERIF_TIER", "quick"), choices=["quick", "thorough"])
    ap.add_argument("--replay", default=None)
    ap.add_argument("--no-evidence", action="store_true")
    a = ap.parse_args(argv)
    prop = a.prop.upper()
    seed = env.seed()
    mod = importlib.import_module(f"mc.props.{prop.lower()}")
    known = core.load_known()
    timer = core.Timer()

    if a.replay:
        data = json.loads(open(a.replay).read())
        viols = mod.replay(data["replay"] if "replay" in data else data)
        if viols:
            for v in viols:
                print(f"REPLAY reproduces: {v.key}: {v.what}")
            print(f"VIOLATION property={prop} replay={a.replay}")
            return 1
        print("replay: no violation reproduced")
        return 0

    try:
        result = mod.run(a.tier, seed)
    except core.HarnessError as e:
        # the code under test (or the harness) raised where no engine expected it
        path = core.REPLAY_DIR / f"{prop}-crash.txt"
        core.REPLAY_DIR.mkdir(exist_ok=True)
        path.write_text(str(e))
        print(str(e)[-3000:], file=sys.stderr)
        print(f"VIOLATION property={prop} replay={path}")
        return 1
    except Exception:
        path = core.REPLAY_DIR / f"{prop}-crash.txt"
        core.REPLAY_DIR.mkdir(exist_ok=True)
        path.write_text(traceback.format_exc())
        traceback.print_exc()
        print(f"VIOLATION property={prop} replay={path}")
        return 1

    viols = core.dedup(result.violations)
    unknown, n_known = [], 0
    reported = set()
    for v in viols:
        k = core.match_known(v, known)
        if k is not None:
            n_known += 1
            if k["key"] not in reported:
                reported.add(k["key"])
                # the first witness of every known finding is kept as a replayable artefact as well
                try:
                    kp = core.write_replay(v)
                except Exception:  # noqa: BLE001
                    kp = None
                print(f"KNOWN-FINDING: property={prop} {k['what']}" + (f" [witness: ./check {prop} --replay {kp}]" if kp else ""))
        else:
            unknown.append(v)
    level = getattr(mod, "LEVEL", "model_checking")
    if not a.no_evidence:
        core.write_evidence(prop, a.tier, seed, level, result, timer.s(), len(unknown), n_known)
    c = result.cov.c
    print(f"[{prop} {a.tier} seed={seed}] states={c.get('states', 0)} transitions={c.get('transitions', 0)} "
          f"evaluations={c.get('evaluations', 0)} exhaustive={result.cov.exhaustive} "
          f"outcomes={len(result.cov.outcomes)} known={n_known} violations={len(unknown)} "
          f"wall={timer.s():.1f}s")
    if unknown:
        for v in unknown[:10]:
            path = core.write_replay(v)
            print(f"  {v.key}: {v.what}")
            print(f"VIOLATION property={prop} replay={path}")
        return 1
    return 0


if __name__ == "__main__":
    sys.exit(main())
