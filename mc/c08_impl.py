"""Build the real syne-tune GP objects from the JSON-able specs of mc.c08_dense, and the RNG stubs.

`build(ks, ms)` returns (kernel_arg, mean, ks_actual, ms_actual): `kernel_arg` is what the posterior-state classes
take (a KernelFunction, or the tuple (KernelFunction, covariance_scale) for a top-level 'scaled' spec); the
`*_actual` specs carry the parameter values *as the library reports them back* through get_params() (the
logarithm encoding stores log(v), so exp(log(v)) may differ from v by an ulp) — the reference is evaluated
at exactly those values.
"""
import copy

import numpy as np

from . import env  # noqa: F401  (shims before syne_tune)

from syne_tune.optimizer.schedulers.searchers.bayesopt.gpautograd.kernel import (  # noqa: E402
    Matern52, ProductKernelFunction, ExponentialDecayResourcesKernelFunction,
    ExponentialDecayResourcesMeanFunction)
from syne_tune.optimizer.schedulers.searchers.bayesopt.gpautograd.mean import (  # noqa: E402
    ScalarMeanFunction, ZeroMeanFunction)
from syne_tune.optimizer.schedulers.searchers.bayesopt.gpautograd.warping import (  # noqa: E402
    Warping, WarpedKernel)


def _f(v):
    return float(np.reshape(v, (-1,))[0])


def construct_mean(ms, kernel_obj=None):
    if ms["m"] == "zero":
        m = ZeroMeanFunction()
    elif ms["m"] == "scalar":
        m = ScalarMeanFunction()
    elif ms["m"] == "expdecay":
        return ExponentialDecayResourcesMeanFunction(kernel=kernel_obj)
    else:
        raise ValueError(ms)
    m.collect_params().initialize()
    return m


def apply_mean(m, ms):
    """Set the parameters of mean object m from spec ms (public set_params); returns the spec with the values read
    back through get_params()."""
    ms = copy.deepcopy(ms)
    if ms["m"] == "scalar":
        m.set_params({"mean_value": ms["value"]})
        ms["value"] = _f(m.get_params()["mean_value"])
    return ms


def _build_mean(ms, kernel_obj=None):
    m = construct_mean(ms, kernel_obj)
    return m, apply_mean(m, ms)


def construct_kernel(ks):
    """Real KernelFunction object tree for spec ks, parameters at their initial values."""
    t = ks["k"]
    if t == "matern52":
        d = int(ks["d"])
        k = Matern52(dimension=d, ARD=len(ks["inv_bw"]) > 1, has_covariance_scale=ks.get("has_cov_scale", True))
        k.collect_params().initialize()
        return k
    if t == "warped":
        base = construct_kernel(ks["base"])
        warps = []
        for w in ks["warps"]:
            wp = Warping(dimension=base.dimension, coordinate_range=tuple(w["range"]))
            wp.collect_params().initialize()
            warps.append(wp)
        return WarpedKernel(kernel=base, warpings=warps)
    if t == "product":
        return ProductKernelFunction(construct_kernel(ks["k1"]), construct_kernel(ks["k2"]))
    if t == "expdecay":
        kx = construct_kernel(ks["kx"])
        mx = construct_mean(ks["mx"])
        k = ExponentialDecayResourcesKernelFunction(
            kx, mx, delta_fixed_value=(ks["delta"] if ks.get("delta_fixed", False) else None))
        k.collect_params().initialize()
        return k
    raise ValueError(t)


def apply_kernel(k, ks):
    """Set all parameters of kernel object k from spec ks through the public set_params(); returns the spec with the
    values as read back through get_params()."""
    ks = copy.deepcopy(ks)
    t = ks["k"]
    if t == "matern52":
        d = int(ks["d"])
        ard = len(ks["inv_bw"]) > 1
        has_cs = ks.get("has_cov_scale", True)
        p = {}
        if ard:
            assert len(ks["inv_bw"]) == d
            for i, v in enumerate(ks["inv_bw"]):
                p[f"inv_bw{i}"] = v
        else:
            p["inv_bw"] = ks["inv_bw"][0]
        if has_cs:
            p["covariance_scale"] = ks["cov_scale"]
        else:
            assert ks["cov_scale"] == 1.0
        k.set_params(p)
        q = k.get_params()
        ks["inv_bw"] = [_f(q[f"inv_bw{i}"]) for i in range(d)] if ard else [_f(q["inv_bw"])]
        ks["cov_scale"] = _f(q["covariance_scale"]) if has_cs else 1.0
        return ks
    if t == "warped":
        ks["base"] = apply_kernel(k.kernel, ks["base"])
        for wp, w in zip(k.warpings, ks["warps"]):
            lo, hi = w["range"]
            size = hi - lo
            names = {kind: [f"power_{kind}" if size == 1 else f"power_{kind}_{i}" for i in range(size)]
                     for kind in ("a", "b")}
            wp.set_params({names[kind][i]: w[kind][i] for kind in ("a", "b") for i in range(size)})
            q = wp.get_params()
            for kind in ("a", "b"):
                w[kind] = [_f(q[nm]) for nm in names[kind]]
        return ks
    if t == "product":
        ks["k1"] = apply_kernel(k.kernel1, ks["k1"])
        ks["k2"] = apply_kernel(k.kernel2, ks["k2"])
        return ks
    if t == "expdecay":
        fixed = ks.get("delta_fixed", False)
        ks["kx"] = apply_kernel(k.kernel_x, ks["kx"])
        ks["mx"] = apply_mean(k.mean_x, ks["mx"])
        # set only the exp-decay parameters themselves (set_params would re-encode kernelx_/meanx_ as well, which
        # could move those by an ulp)
        k.encoding_alpha.set(k.alpha_internal, ks["alpha"])
        k.encoding_mean_lam.set(k.mean_lam_internal, ks["mean_lam"])
        k.encoding_gamma.set(k.gamma_internal, ks["gamma"])
        if not fixed:
            k.encoding_delta.set(k.delta_internal, ks["delta"])
        q = k.get_params()
        for name in ("alpha", "mean_lam", "gamma"):
            ks[name] = _f(q[name])
        if not fixed:
            ks["delta"] = _f(q["delta"])
        return ks
    raise ValueError(t)


def construct(ks, ms_list):
    """-> (kernel_arg, kernel_obj, [mean objects]) with initial parameter values."""
    if ks["k"] == "scaled":
        kobj = construct_kernel(ks["base"])
        kernel_arg = (kobj, np.array([float(ks["scale"])]))
    else:
        kobj = construct_kernel(ks)
        kernel_arg = kobj
    return kernel_arg, kobj, [construct_mean(ms, kobj) for ms in ms_list]


def apply(kobj, means, ks, ms_list):
    """Set parameters; -> (ks_actual, [ms_actual])."""
    if ks["k"] == "scaled":
        ks_actual = {"k": "scaled", "base": apply_kernel(kobj, ks["base"]), "scale": float(ks["scale"])}
    else:
        ks_actual = apply_kernel(kobj, ks)
    return ks_actual, [apply_mean(m, ms) for m, ms in zip(means, ms_list)]


def build(ks, ms):
    """One kernel + one mean: -> (kernel_arg, mean object, ks_actual, ms_actual)."""
    kernel_arg, kobj, means = construct(ks, [ms])
    ks_actual, ms_actual = apply(kobj, means, ks, [ms])
    return kernel_arg, means[0], ks_actual, ms_actual[0]


# --------------------------------------------------------------------------- RNG stubs

class UnitVectorNormal:
    """random_state stub for sample_joint: the s-th call returns the s-th unit vector (along axis 0)
    in every fantasy column, so that samples[:, j, s] - mean[:, j] is column s of the covariance factor."""

    def __init__(self):
        self.calls = 0

    def normal(self, size=None, **kw):
        a = np.zeros(size)
        a[self.calls, ...] = 1.0
        self.calls += 1
        return a


class ConstNormal:
    """random_state stub for sample_and_update: returns the given row of 'draws' (shape (1, m))."""

    def __init__(self, z):
        self.z = np.asarray(z, dtype=float).reshape(1, -1)
        self.calls = 0

    def normal(self, size=None, **kw):
        self.calls += 1
        assert tuple(size) == self.z.shape, (size, self.z.shape)
        return self.z.copy()
