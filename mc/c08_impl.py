"""Build the real syne-tune GP objects from the JSON-able specs of mc.c08_dense, and the RNG stubs.

`build(ks, ms)` returns (kernel_arg, mean, ks_actual, ms_actual): `kernel_arg` is what the posterior-state classes
take (a KernelFunction, or the tuple (KernelFunction, covariance_scale) for a top-level 'scaled' spec); the
`*_actual` specs carry the parameter values *as the library reports them back* through get_params() (the
logarithm encoding stores log(v), so exp(log(v)) may differ from v by an ulp) — the reference is evaluated
at exactly those values.
"""
import copy

import numpy as np

from . import env  # noqa: F401  (shims before syne_tune)

from syne_tune.optimizer.schedulers.searchers.bayesopt.gpautograd.kernel import (  # noqa: E402
    Matern52, ProductKernelFunction, ExponentialDecayResourcesKernelFunction,
    ExponentialDecayResourcesMeanFunction)
from syne_tune.optimizer.schedulers.searchers.bayesopt.gpautograd.mean import (  # noqa: E402
    ScalarMeanFunction, ZeroMeanFunction)
from syne_tune.optimizer.schedulers.searchers.bayesopt.gpautograd.warping import (  # noqa: E402
    Warping, WarpedKernel)


def _f(v):
    return float(np.reshape(v, (-1,))[0])


def _build_mean(ms, kernel_obj=None):
    ms = copy.deepcopy(ms)
    if ms["m"] == "zero":
        m = ZeroMeanFunction()
        m.collect_params().initialize()
        return m, ms
    if ms["m"] == "scalar":
        m = ScalarMeanFunction()
        m.collect_params().initialize()
        m.set_params({"mean_value": ms["value"]})
        ms["value"] = _f(m.get_params()["mean_value"])
        return m, ms
    if ms["m"] == "expdecay":
        m = ExponentialDecayResourcesMeanFunction(kernel=kernel_obj)
        return m, ms
    raise ValueError(ms)


def _build_kernel(ks):
    """-> (KernelFunction, ks_actual); parameters set through the public set_params()/get_params()."""
    ks = copy.deepcopy(ks)
    t = ks["k"]
    if t == "matern52":
        d = int(ks["d"])
        ard = len(ks["inv_bw"]) > 1
        has_cs = ks.get("has_cov_scale", True)
        k = Matern52(dimension=d, ARD=ard, has_covariance_scale=has_cs)
        k.collect_params().initialize()
        p = {}
        if ard:
            assert len(ks["inv_bw"]) == d
            for i, v in enumerate(ks["inv_bw"]):
                p[f"inv_bw{i}"] = v
        else:
            p["inv_bw"] = ks["inv_bw"][0]
        if has_cs:
            p["covariance_scale"] = ks["cov_scale"]
        else:
            assert ks["cov_scale"] == 1.0
        k.set_params(p)
        q = k.get_params()
        if ard and d > 1:
            ks["inv_bw"] = [_f(q[f"inv_bw{i}"]) for i in range(d)]
        else:
            ks["inv_bw"] = [_f(q["inv_bw"])]
        ks["cov_scale"] = _f(q["covariance_scale"]) if has_cs else 1.0
        return k, ks
    if t == "warped":
        base, ks["base"] = _build_kernel(ks["base"])
        d = base.dimension
        warps = []
        for w in ks["warps"]:
            lo, hi = w["range"]
            wp = Warping(dimension=d, coordinate_range=(lo, hi))
            wp.collect_params().initialize()
            size = hi - lo
            p = {}
            for kind in ("a", "b"):
                for i in range(size):
                    name = f"power_{kind}" if size == 1 else f"power_{kind}_{i}"
                    p[name] = w[kind][i]
            wp.set_params(p)
            q = wp.get_params()
            for kind in ("a", "b"):
                w[kind] = [_f(q[f"power_{kind}" if size == 1 else f"power_{kind}_{i}"]) for i in range(size)]
            warps.append(wp)
        k = WarpedKernel(kernel=base, warpings=warps)
        return k, ks
    if t == "product":
        k1, ks["k1"] = _build_kernel(ks["k1"])
        k2, ks["k2"] = _build_kernel(ks["k2"])
        return ProductKernelFunction(k1, k2), ks
    if t == "expdecay":
        kx, ks["kx"] = _build_kernel(ks["kx"])
        mx, ks["mx"] = _build_mean(ks["mx"])
        fixed = ks.get("delta_fixed", False)
        k = ExponentialDecayResourcesKernelFunction(
            kx, mx, delta_fixed_value=(ks["delta"] if fixed else None))
        k.collect_params().initialize()
        p = k.get_params()
        p.update({"alpha": ks["alpha"], "mean_lam": ks["mean_lam"], "gamma": ks["gamma"]})
        if not fixed:
            p["delta"] = ks["delta"]
        k.set_params(p)
        q = k.get_params()
        for name in ("alpha", "mean_lam", "gamma"):
            ks[name] = _f(q[name])
        if not fixed:
            ks["delta"] = _f(q["delta"])
        return k, ks
    raise ValueError(t)


def build(ks, ms):
    if ks["k"] == "scaled":
        base, base_actual = _build_kernel(ks["base"])
        scale = np.array([float(ks["scale"])])
        kernel_arg = (base, scale)
        ks_actual = {"k": "scaled", "base": base_actual, "scale": float(scale[0])}
        kobj = base
    else:
        kobj, ks_actual = _build_kernel(ks)
        kernel_arg = kobj
    mean, ms_actual = _build_mean(ms, kobj)
    return kernel_arg, mean, ks_actual, ms_actual


# --------------------------------------------------------------------------- RNG stubs

class UnitVectorNormal:
    """random_state stub for sample_joint: the s-th call returns the s-th unit vector (along axis 0)
    in every fantasy column, so that samples[:, j, s] - mean[:, j] is column s of the covariance factor."""

    def __init__(self):
        self.calls = 0

    def normal(self, size=None, **kw):
        a = np.zeros(size)
        a[self.calls, ...] = 1.0
        self.calls += 1
        return a


class ConstNormal:
    """random_state stub for sample_and_update: returns the given row of 'draws' (shape (1, m))."""

    def __init__(self, z):
        self.z = np.asarray(z, dtype=float).reshape(1, -1)
        self.calls = 0

    def normal(self, size=None, **kw):
        self.calls += 1
        assert tuple(size) == self.z.shape, (size, self.z.shape)
        return self.z.copy()
