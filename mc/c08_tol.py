"""Principled tolerances for C08: a priori rounding bounds of the library's float64 kernel evaluation, and
first-order (componentwise) perturbation bounds of the dense GP expressions.

Nothing here is fitted to observed differences.  The model is the standard one (Higham, Accuracy and Stability of
Numerical Algorithms, 2nd ed.): every float operation has relative error <= U; a Cholesky factorisation followed by
triangular solves is backward stable, i.e. the computed quantities are exact for A + dA with
|dA|_ij <= gamma_k sqrt(A_ii A_jj) (Thm 10.3/10.4 with |R^T||R|_ij <= sqrt(A_ii A_jj)); and to first order

    d(w^T A^{-1} r)      = - (A^{-1}w)^T dA (A^{-1}r)                 (predictive mean, variance, covariance)
    d(log det A)          = tr(A^{-1} dA)                              (marginal likelihood)

so that  |d mean_t| <= |W_t| E |alpha| + |dk*_t| |alpha| + ...,  with E >= |dA| entrywise collecting the factorisation
backward error and the rounding error dK of the kernel entries themselves.  The bounds are divided by (1 - rho),
rho = || |A^{-1}| E ||_inf, which makes them rigorous beyond first order while rho < 1; cases with rho > RHO_MAX are
*numerically singular* (the data do not determine the result in float64) and are counted separately, not compared.
cond(A)*eps enters through W = K*^T A^{-1} and alpha = A^{-1} r, i.e. the tolerance is conditioning-scaled per case.
"""
import numpy as np

from . import c08_dense as dn

U = float(np.finfo(float).eps)      # 2.2e-16 (twice the unit round-off: conservative)
SAFETY = 2.0                        # the float64 reference's own rounding when mpmath is not used
RHO_MAX = 0.25


def gamma(k):
    return k * U / (1.0 - k * U)


# --------------------------------------------------------- rounding of the library's kernel evaluation
# value/err pairs; x1: list of (n1,1) columns, x2: list of (1,n2) rows; e1/e2: abs errors of the coordinates.

def _warp_err(ks, x, e):
    x = list(x)
    e = list(e)
    for w in ks["warps"]:
        lo, hi = w["range"]
        for j, k in enumerate(range(lo, hi)):
            a, b = float(w["a"][j]), float(w["b"][j])
            r = (1 - 2 * dn.WARP_EPS) * x[k] + dn.WARP_EPS
            er = e[k] + 3 * U * np.abs(r)
            p = np.power(r, a)
            rel_p = a * er / np.maximum(r, 1e-300) + 2 * U
            ep = p * rel_p
            u_ = 1 - p
            eu = ep + U * np.abs(u_)
            q = np.power(np.maximum(u_, 0.0), b)
            q_hi = np.power(np.maximum(u_, 0.0) + eu, b)
            q_lo = np.power(np.maximum(u_ - eu, 0.0), b)
            eq = np.maximum(q_hi - q, q - q_lo) + 2 * U * q
            wv = 1 - q
            x[k] = wv
            e[k] = eq + U * np.abs(wv)
    return x, e


def _kappa_err(r, er, alpha, mean_lam):
    beta = alpha / mean_lam
    t = beta / (r + beta)
    kap = np.power(t, alpha)
    rel = alpha * (4 * U + er / (r + beta)) + 2 * U
    return kap, kap * rel


def _mean_err(ms, ks, x, e):
    t = ms["m"]
    if t == "zero":
        return 0 * x[0], 0 * x[0]
    if t == "scalar":
        return 0 * x[0] + float(ms["value"]), 0 * x[0]
    ed = dn._find_expdecay(ks)
    dx = dn.kernel_dim(ed["kx"])
    mu, emu = _mean_err(ed["mx"], ed["kx"], x[:dx], e[:dx])
    kap, ekap = _kappa_err(x[dx], e[dx], float(ed["alpha"]), float(ed["mean_lam"]))
    ga, de = float(ed["gamma"]), float(ed["delta"])
    p = ga - de * mu
    ep = U * (abs(ga) + 2 * de * np.abs(mu)) + de * emu
    val = mu + kap * p
    return val, emu + kap * ep + np.abs(p) * ekap + 3 * U * (np.abs(mu) + np.abs(kap * p))


def _k_err(ks, x1, x2, e1, e2):
    t = ks["k"]
    if t == "matern52":
        d = int(ks["d"])
        ib = ks["inv_bw"]
        ib = [float(ib[0])] * d if len(ib) == 1 else [float(v) for v in ib]
        S = 0.0
        na = 0.0
        nb = 0.0
        dS_in = 0.0
        for k in range(d):
            a, b = ib[k] * x1[k], ib[k] * x2[k]
            S = S + (a - b) ** 2
            na = na + a * a
            nb = nb + b * b
            ee = e1[k] + e2[k]
            dS_in = dS_in + ib[k] ** 2 * (2 * np.abs(x1[k] - x2[k]) * ee + ee * ee)
        # library: scaled inputs, squared norms, -2 a.b + |a|^2 + |b|^2  ->  (d+4) roundings of terms <= (|a|+|b|)^2
        dS_round = (d + 4) * U * (np.sqrt(na) + np.sqrt(nb)) ** 2
        D = 5 * S
        dD = 5 * (dS_round + dS_in) + 2 * U * D
        B = np.sqrt(D + dn.NUMERICAL_JITTER)
        B_lo = np.sqrt(np.maximum(D - dD, 0.0) + dn.NUMERICAL_JITTER)
        g = (1 + B + D / 3) * np.exp(-B)
        slope = (1 + B_lo) * np.exp(-B_lo) / 6.0       # |dg/dD| <= (1+B)exp(-B)/6, decreasing in B
        c = float(ks["cov_scale"])
        return c * g, c * (slope * dD + 8 * U * g)
    if t == "warped":
        w1, f1 = _warp_err(ks, x1, e1)
        w2, f2 = _warp_err(ks, x2, e2)
        return _k_err(ks["base"], w1, w2, f1, f2)
    if t == "scaled":
        v, e = _k_err(ks["base"], x1, x2, e1, e2)
        s = float(ks["scale"])
        return s * v, s * e + 2 * U * np.abs(s * v)
    if t == "product":
        d1 = dn.kernel_dim(ks["k1"])
        v1, f1 = _k_err(ks["k1"], x1[:d1], x2[:d1], e1[:d1], e2[:d1])
        v2, f2 = _k_err(ks["k2"], x1[d1:], x2[d1:], e1[d1:], e2[d1:])
        return v1 * v2, np.abs(v1) * f2 + np.abs(v2) * f1 + f1 * f2 + U * np.abs(v1 * v2)
    if t == "expdecay":
        dx = dn.kernel_dim(ks["kx"])
        al, ml, ga, de = (float(ks[n]) for n in ("alpha", "mean_lam", "gamma", "delta"))
        kx, ekx = _k_err(ks["kx"], x1[:dx], x2[:dx], e1[:dx], e2[:dx])
        mu1, emu1 = _mean_err(ks["mx"], ks["kx"], x1[:dx], e1[:dx])
        mu2, emu2 = _mean_err(ks["mx"], ks["kx"], x2[:dx], e2[:dx])
        ka1, eka1 = _kappa_err(x1[dx], e1[dx], al, ml)
        ka2, eka2 = _kappa_err(x2[dx], e2[dx], al, ml)
        ka12, eka12 = _kappa_err(x1[dx] + x2[dx], e1[dx] + e2[dx] + U * (x1[dx] + x2[dx]), al, ml)
        p1, p2 = ga - de * mu1, ga - de * mu2
        ep1 = U * (abs(ga) + 2 * de * np.abs(mu1)) + de * emu1
        ep2 = U * (abs(ga) + 2 * de * np.abs(mu2)) + de * emu2
        inner = ka12 - ka1 * ka2
        einner = eka12 + ka1 * eka2 + ka2 * eka1 + 2 * U * (ka12 + ka1 * ka2)
        res = p1 * p2 * inner
        eres = np.abs(p1 * p2) * einner + np.abs(inner) * (np.abs(p1) * ep2 + np.abs(p2) * ep1) + 3 * U * np.abs(res)
        tmp = 1 - de * (ka1 + ka2 - de * ka12)
        etmp = de * (eka1 + eka2 + de * eka12) + 4 * U * (1 + de * (ka1 + ka2 + de * ka12))
        val = kx * tmp + res
        return val, np.abs(kx) * etmp + np.abs(tmp) * ekx + ekx * etmp + eres + 2 * U * (np.abs(kx * tmp) + np.abs(res))
    raise ValueError(t)


def _kd_err(ks, x, e):
    """Rounding bound of the library's diagonal()."""
    t = ks["k"]
    if t == "matern52":
        return 0 * x[0] + float(ks["cov_scale"]), 0 * x[0]
    if t == "warped":
        w, f = _warp_err(ks, x, e)
        return _kd_err(ks["base"], w, f)
    if t == "scaled":
        v, er = _kd_err(ks["base"], x, e)
        s = float(ks["scale"])
        return s * v, s * er + 2 * U * np.abs(s * v)
    if t == "product":
        d1 = dn.kernel_dim(ks["k1"])
        v1, f1 = _kd_err(ks["k1"], x[:d1], e[:d1])
        v2, f2 = _kd_err(ks["k2"], x[d1:], e[d1:])
        return v1 * v2, np.abs(v1) * f2 + np.abs(v2) * f1 + f1 * f2 + U * np.abs(v1 * v2)
    if t == "expdecay":
        dx = dn.kernel_dim(ks["kx"])
        al, ml, ga, de = (float(ks[n]) for n in ("alpha", "mean_lam", "gamma", "delta"))
        kx, ekx = _kd_err(ks["kx"], x[:dx], e[:dx])
        mu, emu = _mean_err(ks["mx"], ks["kx"], x[:dx], e[:dx])
        ka, eka = _kappa_err(x[dx], e[dx], al, ml)
        ka2, eka2 = _kappa_err(2 * x[dx], 2 * e[dx], al, ml)
        p = ga - de * mu
        ep = U * (abs(ga) + 2 * de * np.abs(mu)) + de * emu
        inner = ka2 - ka * ka
        einner = eka2 + 2 * ka * eka + 2 * U * (ka2 + ka * ka)
        res = p * p * inner
        eres = p * p * einner + 2 * np.abs(inner * p) * ep + 3 * U * np.abs(res)
        tmp = 1 - de * (2 * ka - de * ka2)
        etmp = de * (2 * eka + de * eka2) + 4 * U * (1 + de * (2 * ka + de * ka2))
        return kx * tmp + res, np.abs(kx) * etmp + np.abs(tmp) * ekx + eres + 2 * U * (np.abs(kx * tmp) + np.abs(res))
    raise ValueError(t)


def kernel_err(ks, X1, X2):
    """Entrywise bound on |library float64 k(X1,X2) - exact documented formula| (inputs exact floats)."""
    X1 = np.asarray(X1, dtype=float)
    X2 = np.asarray(X2, dtype=float)
    c1, c2 = dn._cols(X1, 0), dn._cols(X2, 1)
    z1 = [np.zeros_like(c) for c in c1]
    z2 = [np.zeros_like(c) for c in c2]
    _, e = _k_err(ks, c1, c2, z1, z2)
    return np.broadcast_to(e, (X1.shape[0], X2.shape[0])).astype(float)


def diag_err(ks, X):
    X = np.asarray(X, dtype=float)
    c = [X[:, k] for k in range(X.shape[1])]
    _, e = _kd_err(ks, c, [np.zeros_like(v) for v in c])
    return np.broadcast_to(e, (X.shape[0],)).astype(float)


def mean_err(ms, ks, X):
    X = np.asarray(X, dtype=float)
    c = [X[:, k] for k in range(X.shape[1])]
    _, e = _mean_err(ms, ks, c, [np.zeros_like(v) for v in c])
    return np.broadcast_to(e, (X.shape[0],)).astype(float)


def textbook_gap(ks, kd_i, kd_j):
    """Bound on |documented kernel formula - pure textbook formula| for an entry with prior variances kd_i, kd_j:
    the sqrt(D + NUMERICAL_JITTER) safeguard moves a Matern-5/2 value by at most NUMERICAL_JITTER/2 * c, and a
    product / exp-decay composition of such factors by at most that per Matern factor; 2.0 = <=2 Matern factors
    + slack for the warping not involved (warping is applied identically in both formulas)."""
    return 2.0 * 0.5 * dn.NUMERICAL_JITTER * np.sqrt(np.abs(kd_i) * np.abs(kd_j))


# ------------------------------------------------------------------------- perturbation bounds

class Bounds:
    """First-order componentwise bounds for one training set.

    A, Ainv, alpha (n,m): reference quantities; dK (n,n): rounding bound of the kernel entries; dm (n,): of m(X);
    extra_diag (n,): additional admissible perturbation of the diagonal (e.g. documented NUMERICAL_JITTER gap).
    """

    def __init__(self, A, Ainv, alpha, R, dK, dm, extra_diag=None):
        n = A.shape[0]
        self.n = n
        dg = np.sqrt(np.abs(np.diag(A)))
        E = gamma(4 * n + 4) * np.outer(dg, dg) + dK
        E = E + np.diag(U * np.abs(np.diag(A)))
        if extra_diag is not None:
            E = E + np.diag(extra_diag)
        self.E = E
        self.absAinv = np.abs(Ainv)
        self.abs_alpha = np.abs(alpha)
        self.alpha = alpha
        self.R = R
        self.dm = dm
        self.rho = float(np.max(np.sum(self.absAinv @ E, axis=1)))
        self.singular = not (self.rho < RHO_MAX)
        self.amp = SAFETY / (1.0 - min(self.rho, RHO_MAX))
        self.quad = np.einsum("ij,ij->j", R, alpha)           # r^T A^{-1} r  per column (>= 0)
        self.Ealpha = E @ self.abs_alpha + dm.reshape(-1, 1)    # (n, m)

    def mean(self, W, Ks, dKs, dmt, mean_val):
        """W (nt,n), Ks (n,nt), dKs (n,nt), dmt (nt,), mean_val (nt,m)  ->  tol (nt,m)"""
        aW = np.abs(W)
        q = np.maximum(np.einsum("ti,it->t", W, Ks), 0.0)
        t = aW @ self.Ealpha + dKs.T @ self.abs_alpha + dmt.reshape(-1, 1)
        t = t + gamma(self.n + 2) * np.sqrt(np.outer(q, np.maximum(self.quad, 0.0))) + 2 * U * np.abs(mean_val)
        return self.amp * t

    def var(self, W, Ks, dKs, kss, dkss):
        aW = np.abs(W)
        q = np.maximum(np.einsum("ti,it->t", W, Ks), 0.0)
        t = np.einsum("ti,ij,tj->t", aW, self.E, aW) + 2 * np.einsum("it,ti->t", dKs, aW) + dkss
        t = t + gamma(self.n + 3) * (np.abs(kss) + q)
        return self.amp * t

    def cov(self, W, Ks, dKs, Ktt, dKtt):
        aW = np.abs(W)
        q = np.maximum(np.einsum("ti,it->t", W, Ks), 0.0)
        t = aW @ self.E @ aW.T + aW @ dKs + (aW @ dKs).T + dKtt
        t = t + gamma(self.n + 3) * (np.abs(Ktt) + np.sqrt(np.outer(q, q)))
        return self.amp * t

    def nlml(self, col, logdet_terms_abs, nlml_val):
        a = self.abs_alpha[:, col]
        t = 0.5 * a @ self.E @ a + a @ self.dm + 0.5 * float(np.sum(self.absAinv * self.E))
        t = t + gamma(self.n + 4) * (logdet_terms_abs + 0.5 * self.quad[col] + abs(nlml_val))
        return self.amp * t
