"""Engine B: stateless, deviation-bounded exploration of the real Tuner.run.

run(prefix) replays the recorded environment answers of `prefix` (an out-of-range answer is a
hard error) and answers 0 (= the profile's default) at every later choice point; after the
execution has been checked, every later choice point is varied, bounded by the number of
non-default answers (deviation bound k).
"""
import contextlib
import hashlib
import io
import os
import shutil
import tempfile
import traceback

from . import env
from .core import Coverage, Violation
from .schedx import exc_site


class ReplayDiverged(Exception):
    pass


class LoopCap(Exception):
    pass


class Chooser:
    def __init__(self, prefix=()):
        self.prefix = list(prefix)
        self.points = []  # (kind, n, chosen)

    def choose(self, kind, n):
        if n <= 1:
            return 0
        i = len(self.points)
        c = self.prefix[i] if i < len(self.prefix) else 0
        if c >= n:
            raise ReplayDiverged(f"choice {i} ({kind}) has {n} options, prefix asks for {c}")
        self.points.append((kind, n, c))
        return c

    def choices(self):
        return [p[2] for p in self.points]


PROFILES = [dict(burst=b, rr=r, lag=l) for b in (False, True) for r in (False, True) for l in (False, True)]


def profile_name(p):
    return ("burst" if p.get("burst") else "single") + "/" + ("rr" if p.get("rr") else "major") + "/" + \
           ("lag" if p.get("lag") else "prompt")


# ------------------------------------------------------------------------- recording

SCHED_METHODS = ("suggest", "on_trial_add", "on_trial_result", "on_trial_remove", "on_trial_complete", "on_trial_error")


def wrap_scheduler(sched, log):
    """Transparent per-instance wrappers around the scheduler's public methods."""
    for name in SCHED_METHODS:
        orig = getattr(sched, name)

        def make(name, orig):
            def w(*args, **kw):
                try:
                    out = orig(*args, **kw)
                except BaseException as e:
                    if name == "on_trial_result":
                        # the result *was* handed to the scheduler: delivery monitors must see it
                        trial = kw.get("trial", args[0] if args else None)
                        res = kw.get("result", args[1] if len(args) > 1 else None)
                        log.append((name, trial.trial_id, dict(res), "RAISED", dict(trial.config)))
                    log.append(("sched_exc", name, type(e).__name__, exc_site(e)))
                    raise
                if name == "suggest":
                    if out is None:
                        log.append(("suggest", None))
                    elif out.spawn_new_trial_id:
                        log.append(("suggest", "start", kw.get("trial_id", args[0] if args else None),
                                    out.checkpoint_trial_id, dict(out.config)))
                    else:
                        log.append(("suggest", "resume", out.checkpoint_trial_id, None,
                                    None if out.config is None else dict(out.config)))
                else:
                    trial = kw.get("trial", args[0] if args else None)
                    if name == "on_trial_result":
                        res = kw.get("result", args[1] if len(args) > 1 else None)
                        log.append((name, trial.trial_id, dict(res), out, dict(trial.config)))
                    elif name == "on_trial_complete":
                        res = kw.get("result", args[1] if len(args) > 1 else None)
                        log.append((name, trial.trial_id, dict(res)))
                    else:
                        log.append((name, trial.trial_id))
                return out
            return w
        setattr(sched, name, make(name, orig))
    if hasattr(sched, "trials_checkpoints_can_be_removed"):
        orig_decl = sched.trials_checkpoints_can_be_removed

        def decl():
            out = orig_decl()
            if out:
                log.append(("declared", tuple(out)))
            return out
        sched.trials_checkpoints_can_be_removed = decl
    return sched


def make_recorder_callback(log, loop_cap, extra=None):
    from syne_tune.tuner_callback import TunerCallback

    class Recorder(TunerCallback):
        def __init__(self):
            self.tuner = None
            self.loops = 0

        def on_tuning_start(self, tuner):
            self.tuner = tuner
            log.append(("tuning_start",))

        def on_tuning_end(self):
            log.append(("tuning_end",))

        def on_loop_start(self):
            self.loops += 1
            info = None
            if extra is not None and self.tuner is not None and self.tuner.tuning_status is not None:
                info = extra(self.tuner)   # == the status at the end of the previous iteration
            log.append(("loop_start", self.loops, info))
            if self.loops > loop_cap:
                raise LoopCap(f"more than {loop_cap} loop iterations")

        def on_loop_end(self):
            ts = self.tuner.tuning_status
            info = None
            if extra is not None:
                info = extra(self.tuner)
            log.append(("loop_end", self.loops, info))

        def on_fetch_status_results(self, trial_status_dict, new_results):
            log.append(("fetch", {t: s for t, (_, s) in trial_status_dict.items()},
                        [(t, dict(r)) for t, r in new_results]))

        def on_trial_complete(self, trial, result):
            log.append(("cb_complete", trial.trial_id, dict(result)))

        def on_trial_result(self, trial, status, result, decision):
            log.append(("cb_result", trial.trial_id, status, dict(result), decision))

        def on_tuning_sleep(self, sleep_time):
            log.append(("sleep", sleep_time))

        def on_start_trial(self, trial):
            log.append(("cb_start", trial.trial_id, dict(trial.config)))

        def on_resume_trial(self, trial):
            log.append(("cb_resume", trial.trial_id, dict(trial.config)))

    return Recorder()


_SCRATCH = None


def scratch_dir():
    """Per-process SYNETUNE_FOLDER under /dev/shm; removed at process exit."""
    global _SCRATCH
    if _SCRATCH is None or not os.path.isdir(_SCRATCH) or _SCRATCH_PID[0] != os.getpid():
        _SCRATCH = tempfile.mkdtemp(prefix="verif-st-", dir="/dev/shm")
        _SCRATCH_PID[0] = os.getpid()
        os.environ["SYNETUNE_FOLDER"] = _SCRATCH
        import atexit
        atexit.register(shutil.rmtree, _SCRATCH, True)
    return _SCRATCH


_SCRATCH_PID = [None]


def clean_scratch():
    d = scratch_dir()
    for name in os.listdir(d):
        shutil.rmtree(os.path.join(d, name), ignore_errors=True)


class Execution:
    def __init__(self):
        self.log = []
        self.exc = None       # (type, site, msg) of an exception escaping Tuner.run
        self.backend = None
        self.tuner = None
        self.points = []
        self.extra = {}


def run_tuner(build, chooser, loop_cap=200):
    """build(chooser, log) -> dict(tuner=..., backend=...) ; runs Tuner.run() and returns Execution."""
    scratch_dir()
    ex = Execution()
    # global generators are owned too (MOASHA & co. draw from them): same state at the start of every execution
    import random as _random
    import numpy as _np
    _np.random.seed(env.seed() + 12345)
    _random.seed(env.seed() + 12345)
    with contextlib.redirect_stdout(io.StringIO()), contextlib.redirect_stderr(io.StringIO()):
        parts = build(chooser, ex.log)
    tuner = parts["tuner"]
    ex.backend = parts.get("backend")
    ex.tuner = tuner
    ex.extra = parts
    try:
        with contextlib.redirect_stdout(io.StringIO()):
            tuner.run()
    except ReplayDiverged:
        raise
    except LoopCap as e:
        ex.exc = ("LoopCap", "harness", str(e))
    except BaseException as e:
        ex.exc = (type(e).__name__, exc_site(e), str(e)[:300])
        ex.tb = traceback.format_exc()
    ex.points = list(chooser.points)
    return ex


def log_digest(log):
    return hashlib.sha1(repr(log).encode()).hexdigest()


def explore(build, check, prop, cfg_label, bound=1, max_exec=None, loop_cap=200, ctx="", want_samples=1,
            state_of=None):
    """Deviation-bounded stateless exploration.

    build(chooser, log) -> parts dict with 'tuner' (and 'backend');
    check(execution) -> list of (key, what);
    returns (Coverage, [Violation]).
    """
    cov = Coverage()
    viols = []
    vkeys = set()
    stack = [()]
    first = True
    states = set()
    outcomes = set()
    while stack:
        prefix = stack.pop()
        ex = run_tuner(build, Chooser(prefix), loop_cap)
        vs = check(ex)
        clean_scratch()
        cov.add("evaluations")
        cov.add("traces_validated_against_impl")
        if first:
            # determinism self-test: replay the first execution twice from its choice list
            first = False
            d0 = log_digest(ex.log)
            for _ in range(2):
                ex2 = run_tuner(build, Chooser([p[2] for p in ex.points]), loop_cap)
                clean_scratch()
                if log_digest(ex2.log) != d0 and not vs:
                    # (when the execution already violates the property the divergence is most likely a symptom
                    # of the same defect - e.g. real-time stamps leaking into delivered results - so report that)
                    raise RuntimeError(f"harness nondeterminism: replay of the same choices diverged ({cfg_label})")
        choices = [p[2] for p in ex.points]
        ndev = sum(1 for c in prefix if c != 0)
        n_loops = sum(1 for e in ex.log if e[0] == "loop_start")
        cov.add("transitions", n_loops)
        if state_of is not None:
            for st in state_of(ex):
                states.add(st)
        oc = "ok" if ex.exc is None else "exc:" + ex.exc[0]
        cov.outcome(oc)
        outcomes.add(log_digest([e for e in ex.log if e[0] in ("on_trial_result", "suggest", "on_trial_error")]))
        if ndev >= 1:
            cov.add("deviating_executions")
        if len(cov.samples) < want_samples and (ndev >= 1 or bound == 0):
            cov.sample({"cfg": cfg_label, "choices": [(p[0], p[2]) for p in ex.points if p[2] != 0] or "all-default",
                        "n_choice_points": len(ex.points),
                        "scheduler_calls": [_short(e) for e in ex.log if e[0] in SCHED_METHODS][:40]})
        for key, what in vs:
            key = f"{ctx}|{key}" if ctx else key
            if key not in vkeys:
                vkeys.add(key)
                viols.append(Violation(prop, key, what, {"engine": "tunerx", "cfg": cfg_label, "choices": choices}))
        if ndev + 1 <= bound:
            for i in range(len(prefix), len(ex.points)):
                n = ex.points[i][1]
                for alt in range(n - 1, 0, -1):
                    stack.append(tuple(choices[:i]) + (alt,))
        if max_exec is not None and cov.c["evaluations"] >= max_exec and stack:
            cov.cap(f"executions {max_exec} ({cfg_label})")
            break
    cov.add("states", len(states))
    cov.add("distinct_nontrivial", len(outcomes))
    return cov, viols


def _short(e):
    if e[0] == "on_trial_result":
        return (e[0], e[1], {k: v for k, v in e[2].items() if not k.startswith("st_")}, e[3])
    if e[0] == "suggest":
        return e[:4]
    return e[:3]
