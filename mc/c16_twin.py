"""C16 — restored twins and continuation comparison.

A crash point is an event history H (the live World is rebuilt by replay).  Two kinds of restored twin:

  dill   : dill.loads(dill.dumps(scheduler))  — what Tuner.save / Tuner.load do to the scheduler; the World is
           re-created around the restored scheduler with a copy of the driver state.
  clone  : pickle round trip of searcher.get_state(), then F.clone_from_state(state) where F is the searcher of a
           freshly constructed scheduler (same constructor arguments — the way tst/schedulers/bayesopt/
           test_checkpointing.py and examples/launch_standalone_bayesian_optimization.py use the facility); the
           clone replaces the searcher of a scheduler brought to H by replay.
           mode 'A': the clone is used as returned; mode 'B' (only tried when A fails): configure_scheduler(scheduler)
           is called on the clone first.

Original and twin are then driven by the same continuation (World events) and their observations compared step
by step.
"""
import copy
import pickle

import dill

from . import env
from .schedx import World, replay, exc_site, canon, _freeze

from syne_tune.backend.trial_status import Trial

CUT = ("none", "over_T")


# ------------------------------------------------------------------------------- helpers

def host(s):
    """object that owns the searcher (MedianStoppingRule wraps a FIFOScheduler)"""
    if hasattr(s, "_searcher"):
        return s
    inner = getattr(s, "scheduler", None)
    if inner is not None and hasattr(inner, "_searcher"):
        return inner
    return None


def searcher_of(s):
    h = host(s)
    return None if h is None else h._searcher


def sched_label(s):
    n = type(s).__name__
    t = getattr(s, "scheduler_type", None)
    if t is not None and n == "HyperbandScheduler":
        n += "/" + str(t)
    inner = getattr(s, "scheduler", None)
    if inner is not None and host(s) is inner:
        n += "(" + type(inner).__name__ + ")"
    return n


def offers_clone(searcher):
    if searcher is None:
        return False
    # the property names the searchers that offer the facility (RegularizedEvolution overrides clone_from_state only to
    # raise NotImplementedError, i.e. it does not offer it)
    from syne_tune.optimizer.schedulers.searchers import RandomSearcher, GridSearcher, GPFIFOSearcher
    return isinstance(searcher, (RandomSearcher, GridSearcher, GPFIFOSearcher))


def driver_clone(w, sched):
    """World around `sched` with a private copy of w's driver state (the scheduler is NOT copied here)"""
    w2 = World.__new__(World)
    w2.__dict__.update(w.__dict__)
    w2.s = sched
    w2.oracles = []
    w2.trials = {t: Trial(t, copy.deepcopy(tr.config), tr.creation_time) for t, tr in w.trials.items()}
    for k in ("level", "status", "run_idx", "run_end", "last_dec"):
        setattr(w2, k, dict(getattr(w, k)))
    w2.last_res = {t: (None if r is None else dict(r)) for t, r in w.last_res.items()}
    w2.resumed_from = None if w.resumed_from is None else dict(w.resumed_from)
    w2.trace = list(w.trace)
    w2.dead = w.dead
    w2.seam_lost = None
    if w.onehot is not None:
        bd = getattr(sched, "bracket_distribution", None)
        if isinstance(bd, env.OneHotBrackets) and bd.n == w.onehot.n:
            bd.b = w.onehot.b
            w2.onehot = bd
        else:
            w2.seam_lost = "bracket_distribution restored as %s" % type(bd).__name__
            w2.onehot = env.OneHotBrackets(w.onehot.n)
            sched.bracket_distribution = w2.onehot
    tk = getattr(host(sched) or sched, "time_keeper", None)
    tk0 = getattr(host(w.s) or w.s, "time_keeper", None)
    if type(tk) is not type(tk0):
        w2.seam_lost = "time_keeper restored as %s (was %s)" % (type(tk).__name__, type(tk0).__name__)
    return w2


class Prep:
    """per crash point: the serialised artefacts (taken once, loaded for every continuation)"""

    def __init__(self):
        self.blob = None          # dill bytes of the scheduler
        self.blob_err = None      # (exc name, site, msg)
        self.state = None         # pickle bytes of searcher.get_state()
        self.state_err = None
        self.initialized = None


def prepare(w, want_clone):
    p = Prep()
    try:
        p.blob = dill.dumps(w.s)
    except Exception as e:
        p.blob_err = (type(e).__name__, exc_site(e), str(e)[:200])
    sr = searcher_of(w.s)
    if want_clone and offers_clone(sr):
        try:
            p.state = pickle.dumps(sr.get_state())
        except Exception as e:
            p.state_err = (type(e).__name__, exc_site(e), str(e)[:200])
        p.initialized = bool(getattr(host(w.s), "_searcher_initialized", True))
    return p


class TwinError(Exception):
    def __init__(self, clause, what):
        super().__init__(what)
        self.clause = clause
        self.what = what


def make_dill_twin(ctx, hist, w, prep):
    try:
        s2 = dill.loads(prep.blob)
    except Exception as e:
        raise TwinError("load-raises:%s@%s" % (type(e).__name__, exc_site(e)), "dill.loads raised %r" % (e,))
    w2 = driver_clone(w, s2)
    if w2.seam_lost:
        raise TwinError("attribute-lost", w2.seam_lost)
    return w2


# Harness-side repairs of a clone ("assists").  They are applied ONLY to classify a divergence that was already
# observed on the unassisted clone: a divergence that disappears under assist X gets the key suffix ':unless(X)', so
# that each independent restore defect has its own key and does not mask other failures of the same searcher.
ASSISTS = ("configure_scheduler", "gpmodel-rng", "num_evaluations", "rc_returned_pos", "grid-order",
           "grid-allow_duplicates")


def applicable_assists(searcher):
    out = ["configure_scheduler"]
    if _gpmodel(searcher) is not None:
        out.append("gpmodel-rng")
    if hasattr(getattr(searcher, "state_transformer", None), "_num_evaluations"):
        out.append("num_evaluations")
    if hasattr(searcher, "_rc_returned_pos") and getattr(searcher, "_restrict_configurations", None) is not None:
        out.append("rc_returned_pos")
    if hasattr(searcher, "hp_values_combinations"):
        out.append("grid-order")
        out.append("grid-allow_duplicates")
    return out


def _gpmodel(searcher):
    st = getattr(searcher, "state_transformer", None)
    est = getattr(st, "estimator", None)
    gm = getattr(est, "gpmodel", None) if est is not None and not isinstance(est, dict) else None
    return gm if gm is not None and hasattr(gm, "random_state") else None


def make_clone_twin(ctx, hist, w, prep, assists=()):
    """scheduler state by replay (or dill for the expensive BO family), searcher by get_state/clone_from_state"""
    if ctx.cfg.get("bo"):
        w2 = driver_clone(w, dill.loads(prep.blob))
    else:
        w2, _ = replay(ctx.build, hist)
    w3 = ctx.build()
    h3 = host(w3.s)
    fresh = h3._searcher
    if prep.initialized:
        h3._initialize_searcher()  # the fresh searcher is configured the way the original was
    keep = {}
    if hasattr(fresh, "hp_values_combinations"):
        keep = dict(combos=list(fresh.hp_values_combinations), dup=fresh._allow_duplicates)
    try:
        state = pickle.loads(prep.state)
        clone = fresh.clone_from_state(state)
    except Exception as e:
        raise TwinError("clone_from_state-raises:%s@%s" % (type(e).__name__, exc_site(e)),
                        "clone_from_state raised %s: %s" % (type(e).__name__, str(e)[:160]))
    if clone is None:
        raise TwinError("clone_from_state-returns-None", "clone_from_state returned None")
    h2 = host(w2.s)
    h2._searcher = clone
    if "configure_scheduler" in assists:
        try:
            clone.configure_scheduler(h2)
        except Exception as e:
            raise TwinError("configure_scheduler-raises:%s@%s" % (type(e).__name__, exc_site(e)), str(e)[:160])
    if "gpmodel-rng" in assists:
        g_o, g_c = _gpmodel(searcher_of(w.s)), _gpmodel(clone)
        if g_o is not None and g_c is not None:
            g_c.random_state.set_state(g_o.random_state.get_state())
    if "num_evaluations" in assists:
        st_o = getattr(searcher_of(w.s), "state_transformer", None)
        st_c = getattr(clone, "state_transformer", None)
        if hasattr(st_o, "_num_evaluations") and hasattr(st_c, "_num_evaluations"):
            st_c._num_evaluations = dict(st_o._num_evaluations)
    if "rc_returned_pos" in assists:
        if getattr(clone, "_restrict_configurations", None) is not None and getattr(clone, "_rc_returned_pos", 0) is None:
            clone._rc_returned_pos = set()
    if "grid-order" in assists and hasattr(clone, "hp_values_combinations"):
        clone.hp_values_combinations = keep["combos"]
    if "grid-allow_duplicates" in assists and hasattr(clone, "hp_values_combinations"):
        clone._allow_duplicates = keep["dup"]
    return w2


# -------------------------------------------------------------------- original side (cached)

class Ctx:
    def __init__(self, cfg, build):
        self.cfg = cfg
        self.build = build
        self.cache = {}

    def node(self, hist):
        """(enabled events, last observation, is_leaf) of the ORIGINAL after `hist`"""
        r = self.cache.get(hist)
        if r is None:
            w, _ = replay(self.build, hist)
            r = self.remember(hist, w)
        return r

    def remember(self, hist, w):
        last = w.trace[-1] if w.trace else None
        en = tuple(w.enabled())
        cut = (not en) or (last is not None and (last[0] == "EXC" or (last[0] == "suggest" and last[1] in CUT)))
        r = (en, last, cut)
        if len(self.cache) < 400000:
            self.cache[hist] = r
        return r


def cont_paths(ctx, hist, h):
    """all maximal continuations of length <= h of the original after hist: list of (events, observations)"""
    out = []

    def rec(p, obs):
        en, _, cut = ctx.node(hist + p)
        if len(p) == h or (p and cut) or not en:
            if p:
                out.append((p, obs))
            return
        for ev in en:
            o = ctx.node(hist + p + (ev,))[1]
            rec(p + (ev,), obs + (o,))

    rec((), ())
    return out


def pick(evs, policy, step):
    evs = [e for e in evs if e[0] != "F"] or list(evs)
    if not evs:
        return None
    if policy == "S":      # start whenever a worker is free
        return evs[0]
    if policy == "R":      # advance running trials first (lowest id), start only when nothing runs
        non_s = [e for e in evs if e[0] != "S"]
        return non_s[0] if non_s else evs[0]
    if policy == "X":      # rotate through the alphabet
        return evs[(step * 2 + 1) % len(evs)]
    if policy == "N":      # start whenever a worker is free, else advance the newest running trial (old trials stay pending)
        return evs[0] if evs[0][0] == "S" else evs[-1]
    if policy == "L":      # last running trial first
        return evs[-1]
    raise ValueError(policy)


def drain(w, policy, maxlen):
    """drive the live world w by a fixed policy; returns (events, observations)"""
    evs_out, obs_out = [], []
    for step in range(maxlen):
        ev = pick(w.enabled(), policy, step)
        if ev is None:
            break
        obs, _ = w.step(ev)
        evs_out.append(ev)
        obs_out.append(obs)
        if obs[0] == "EXC" or (obs[0] == "suggest" and obs[1] in CUT):
            break
    return tuple(evs_out), tuple(obs_out)


# ------------------------------------------------------------------------------ comparison

def suggested(trace):
    return [o[3] for o in trace if o[0] == "suggest" and o[1] == "start"]


def classify(o_orig, o_twin):
    if o_twin[0] == "EXC":
        return "continuation-raises:%s@%s" % (o_twin[1], o_twin[2])
    if o_orig[0] == "EXC":
        return "continuation-differs:original-raises:%s@%s" % (o_orig[1], o_orig[2])
    if o_orig[0] == "suggest" and o_twin[0] == "suggest":
        return "continuation-differs:suggest"
    if o_orig[0] == "report" and o_twin[0] == "report":
        return "continuation-differs:decision:%s->%s" % (o_orig[-1], o_twin[-1])
    return "continuation-differs:%s->%s" % (o_orig[0], o_twin[0])


FLOAT_TOL = float(__import__("os").environ.get("VERIF_C16_TOL", "1e-7"))
MAXDEV = [0.0]  # largest relative deviation accepted
NEAR = [0]  # number of observations accepted by the tolerance (reported in coverage)


def same_obs(a, b):
    """exact equality, or suggestions whose float hyperparameters agree to FLOAT_TOL (get_params/set_params of the GP
    searchers round-trips the surrogate parameters through their encoding and is exact only up to an ulp)"""
    if a == b:
        return True
    if a[0] != "suggest" or b[0] != "suggest" or len(a) != len(b) or a[:3] != b[:3] or a[4:] != b[4:]:
        return False
    ca, cb = a[3], b[3]
    if ca is None or cb is None or len(ca) != len(cb):
        return False
    for (ka, va), (kb, vb) in zip(ca, cb):
        if ka != kb:
            return False
        if va == vb:
            continue
        try:
            fa, fb = float(va), float(vb)
        except ValueError:
            return False
        if "." not in va and "e" not in va.lower():
            return False  # integers must agree exactly
        if not abs(fa - fb) <= FLOAT_TOL * max(1.0, abs(fa), abs(fb)):
            return False
        MAXDEV[0] = max(MAXDEV[0], abs(fa - fb) / max(1.0, abs(fa), abs(fb)))
    NEAR[0] += 1
    return True


def run_twin(tw, events, obs_orig):
    """returns (steps compared, None) or (steps, (clause, what, step index))"""
    n = 0
    for i, ev in enumerate(events):
        if ev not in tw.enabled():
            return n, ("continuation-differs:event-not-enabled", "event %r enabled for the original but not for the "
                       "restored twin (driver state diverged)" % (ev,), i)
        o, _ = tw.step(ev)
        n += 1
        if not same_obs(obs_orig[i], o):
            return n, (classify(obs_orig[i], o), "step %d event %r: original %r, restored %r" % (i, ev, obs_orig[i], o), i)
    return n, None


def repeat_skip_note(w_hist_trace, obs_orig, tw, policy_tail=40):
    """after a divergence: let the twin run on by itself (start-first policy) and describe repeats / skips
    of configurations relative to the uninterrupted original (text only; never part of the key)"""
    try:
        if not tw.dead:
            drain(tw, "S", policy_tail)
    except Exception:
        pass
    seq_t = suggested(tw.trace)
    seq_o = suggested(list(w_hist_trace) + list(obs_orig))
    notes, tags = [], []
    dup = [c for i, c in enumerate(seq_t) if c in seq_t[:i]]
    if dup and len(set(seq_o)) == len(seq_o):
        tags.append("configuration-suggested-twice")
        notes.append("restored twin suggests %d configuration(s) twice, e.g. %s" % (len(dup), dict(dup[0])))
    if any(o[0] == "suggest" and o[1] == "none" for o in tw.trace):
        missing = [c for c in seq_o if c not in seq_t]
        if missing:
            tags.append("configuration-skipped")
            notes.append("restored twin is exhausted without ever suggesting %d configuration(s) the original suggests, "
                         "e.g. %s" % (len(missing), dict(missing[0])))
    return "; ".join(notes), tags
