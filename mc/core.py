"""Shared plumbing: violations, coverage accumulation, known-findings, evidence, pool."""
import fnmatch
import hashlib
import json
import multiprocessing as mp
import os
import time
import traceback
from pathlib import Path

ROOT = Path(__file__).resolve().parent.parent
EVIDENCE_DIR = ROOT / "evidence"
REPLAY_DIR = ROOT / "replays"
KNOWN = ROOT / "known_findings.json"
EVIDENCE_SCHEMA = Path("/root/.vp/EVIDENCE.schema.json")


class Violation:
    """One property violation observed on the real code.

    key   : structural identifier (scheduler class / clause / event pattern) used to
            match known findings and to de-duplicate; never contains seeds or trial ids
            unless they are part of the minimal pattern.
    what  : one-line human description
    replay: JSON-able dict sufficient to re-run (property module knows how)
    """

    def __init__(self, prop, key, what, replay=None):
        self.prop = prop
        self.key = key
        self.what = what
        self.replay = replay or {}

    def to_json(self):
        return {"property": self.prop, "key": self.key, "what": self.what, "replay": self.replay}


class Coverage:
    """Additive coverage record; merge() sums counters and keeps a few samples."""

    COUNTERS = ("states", "transitions", "traces_validated_against_impl", "evaluations",
                "distinct_nontrivial")

    def __init__(self):
        self.c = {}
        self.samples = []
        self.outcomes = {}
        self.caps_hit = []
        self.exhaustive = True
        self.extra = {}

    def add(self, name, n=1):
        self.c[name] = self.c.get(name, 0) + n

    def outcome(self, name, n=1):
        self.outcomes[name] = self.outcomes.get(name, 0) + n

    def sample(self, s, limit=6):
        if len(self.samples) < limit:
            self.samples.append(s)

    def cap(self, what):
        self.exhaustive = False
        if what not in self.caps_hit and len(self.caps_hit) < 20:
            self.caps_hit.append(what)

    def merge(self, other):
        for k, v in other.c.items():
            self.c[k] = self.c.get(k, 0) + v
        for k, v in other.outcomes.items():
            self.outcomes[k] = self.outcomes.get(k, 0) + v
        for s in other.samples:
            self.sample(s)
        for c in other.caps_hit:
            self.cap(c)
        self.exhaustive = self.exhaustive and other.exhaustive
        for k, v in other.extra.items():
            if k.startswith("max_") and isinstance(v, (int, float)):
                self.extra[k] = max(self.extra.get(k, 0), v)
            elif isinstance(v, (int, float)) and isinstance(self.extra.get(k, 0), (int, float)):
                self.extra[k] = self.extra.get(k, 0) + v
            elif isinstance(v, list):
                cur = self.extra.setdefault(k, [])
                for x in v:
                    if x not in cur and len(cur) < 40:
                        cur.append(x)
            else:
                self.extra[k] = v
        return self


class Result:
    def __init__(self):
        self.violations = []
        self.cov = Coverage()
        self.assumptions = []
        self.rule = ""
        self.bounds = {}

    def merge(self, other):
        self.violations.extend(other.violations)
        self.cov.merge(other.cov)
        for a in other.assumptions:
            if a not in self.assumptions:
                self.assumptions.append(a)
        return self


# --------------------------------------------------------------------------- pool

def _run_task(args):
    fn, task = args
    try:
        return ("ok", fn(task))
    except Exception:  # harness-level failure inside a worker
        return ("err", traceback.format_exc(), repr(task)[:400])


def _quiet_worker():
    # library code prints (e.g. MOASHA.on_trial_add): keep the check's stdout for verdict lines only
    import sys
    sys.stdout = open(os.devnull, "w")


def pmap(fn, tasks, procs=None):
    """Run fn(task) for each task on a fork pool; returns list of results (ordered).

    A worker exception is re-raised in the parent as HarnessError (carrying the trace).
    """
    from . import env
    tasks = list(tasks)
    procs = procs or env.ncpu()
    if procs <= 1 or len(tasks) <= 1 or os.environ.get("VERIF_SERIAL"):
        out = [_run_task((fn, t)) for t in tasks]
    else:
        ctx = mp.get_context("fork")
        with ctx.Pool(min(procs, len(tasks)), initializer=_quiet_worker) as pool:
            out = pool.map(_run_task, [(fn, t) for t in tasks], chunksize=1)
    res = []
    for o in out:
        if o[0] == "err":
            raise HarnessError(o[1] + "\n(task " + o[2] + ")")
        res.append(o[1])
    return res


class HarnessError(Exception):
    pass


# ------------------------------------------------------------------ known findings

def load_known():
    if not KNOWN.exists():
        return []
    return json.loads(KNOWN.read_text())["findings"]


def match_known(v, known):
    for k in known:
        if k.get("status") != "open":
            continue  # 'fixed' entries suppress nothing
        if k["property"] != v.prop:
            continue
        if fnmatch.fnmatchcase(v.key, k["key"]):
            return k
    return None


# ------------------------------------------------------------------------ evidence

def write_evidence(prop, tier, seed, level, result, wall_s, n_viol, n_known):
    cov = result.cov
    coverage = dict(cov.c)
    coverage["samples"] = cov.samples[:6] if cov.samples else ["<none>"]
    coverage["rule"] = result.rule
    coverage["exhaustive"] = bool(cov.exhaustive)
    coverage["caps_hit"] = cov.caps_hit
    coverage["bounds"] = result.bounds
    coverage["distinct_outcomes"] = cov.outcomes
    # (no key is ever filled in from another key: a model_checking record without measured evaluations /
    # distinct_nontrivial simply does not carry them)
    for k, v in cov.extra.items():
        coverage.setdefault(k, v)
    ev = {
        "property_id": prop,
        "tier": tier,
        "seed": int(seed),
        "level": level,
        "coverage": coverage,
        "assumptions": result.assumptions,
        "wall_s": round(wall_s, 2),
        "violations": int(n_viol),
        "known_findings_reported": int(n_known),
    }
    EVIDENCE_DIR.mkdir(exist_ok=True)
    path = EVIDENCE_DIR / f"{prop}.json"
    try:
        import jsonschema
        jsonschema.validate(ev, json.loads(EVIDENCE_SCHEMA.read_text()))
    except ImportError:
        pass
    except FileNotFoundError:
        pass
    path.write_text(json.dumps(ev, indent=1, default=_jd) + "\n")
    return path


def _jd(o):
    import numpy as np
    if isinstance(o, (np.integer,)):
        return int(o)
    if isinstance(o, (np.floating,)):
        return float(o)
    if isinstance(o, np.ndarray):
        return o.tolist()
    if isinstance(o, (set, frozenset, tuple)):
        return list(o)
    return repr(o)


def write_replay(v):
    REPLAY_DIR.mkdir(exist_ok=True)
    h = hashlib.sha1((v.prop + "|" + v.key).encode()).hexdigest()[:10]
    path = REPLAY_DIR / f"{v.prop}-{h}.json"
    path.write_text(json.dumps(v.to_json(), indent=1, default=_jd) + "\n")
    return path


def dedup(violations):
    seen = {}
    for v in violations:
        if v.key not in seen:
            seen[v.key] = v
    return list(seen.values())


class Timer:
    def __init__(self):
        self.t0 = time.time()

    def s(self):
        return time.time() - self.t0
