"""TunerProtocol: the Tuner <-> scheduler call protocol as one automaton.

Used (a) as the grammar Engine A's World drives schedulers with and (b) as a monitor on the
scheduler-call traces the *real* Tuner.run produces under Engine B (conformance link).
Per trial:  NEW --add--> RUNNING --result(CONTINUE)*--> RUNNING
            RUNNING --result(STOP|PAUSE) ; remove--> STOPPED|PAUSED
            RUNNING --complete--> DONE      RUNNING --error--> FAILED
            PAUSED --suggest(resume)--> RUNNING
"""

NEW, RUNNING, DECIDED, PAUSED, STOPPED, DONE, FAILED = "new", "running", "decided", "paused", "stopped", "done", "failed"


class TunerProtocol:
    def __init__(self):
        self.state = {}
        self.pending_decision = {}
        self.seen = set()
        self.errors = []

    def _err(self, key, msg):
        self.errors.append((key, msg))

    def feed(self, ev):
        """ev: entry of the scheduler call log produced by tunerx.wrap_scheduler"""
        k = ev[0]
        if k == "suggest":
            if ev[1] is None:
                self.seen.add("suggest-none")
            elif ev[1] == "start":
                self.seen.add("suggest-start")
            else:
                t = ev[2]
                self.seen.add("suggest-resume")
                if self.state.get(t) != PAUSED:
                    self._err("protocol:resume-of-non-paused", f"scheduler asked to resume trial {t} in state {self.state.get(t)}")
                else:
                    self.state[t] = RUNNING
        elif k == "on_trial_add":
            t = ev[1]
            if t in self.state:
                self._err("protocol:add-twice", f"on_trial_add called again for trial {t}")
            self.state[t] = RUNNING
            self.seen.add("add")
        elif k == "on_trial_result":
            t, dec = ev[1], ev[3]
            st = self.state.get(t)
            if st != RUNNING:
                self._err(f"protocol:result-in-state-{st}", f"on_trial_result for trial {t} in state {st}")
            self.seen.add("result-" + str(dec))
            if dec in ("STOP", "PAUSE"):
                self.state[t] = DECIDED
                self.pending_decision[t] = dec
        elif k == "on_trial_remove":
            t = ev[1]
            if self.state.get(t) != DECIDED:
                self._err(f"protocol:remove-in-state-{self.state.get(t)}", f"on_trial_remove for trial {t} in state {self.state.get(t)}")
            self.state[t] = PAUSED if self.pending_decision.pop(t, None) == "PAUSE" else STOPPED
            self.seen.add("remove-" + self.state[t])
        elif k == "on_trial_complete":
            t = ev[1]
            if self.state.get(t) != RUNNING:
                self._err(f"protocol:complete-in-state-{self.state.get(t)}", f"on_trial_complete for trial {t} in state {self.state.get(t)}")
            self.state[t] = DONE
            self.seen.add("complete")
        elif k == "on_trial_error":
            t = ev[1]
            if self.state.get(t) != RUNNING:
                self._err(f"protocol:error-in-state-{self.state.get(t)}", f"on_trial_error for trial {t} in state {self.state.get(t)}")
            self.state[t] = FAILED
            self.seen.add("error")
