"""Harness-side trial backends for Engine B.

ScriptedBackend(TrialBackend): inherits the *real* fetch_status_results / start_trial /
resume_trial / pause_trial / stop_trial / stop_all / new_trial_id and implements only the
abstract hooks over in-memory scripted workers.  "stdout" is append-only per trial (as in
LocalBackend: metrics accumulate over the runs of a trial), checkpoints live in a dict.
Every environment answer is a choice point of the explorer (see tunerx.Chooser).
"""
from pathlib import Path

from . import env  # noqa: F401
from syne_tune.backend.trial_backend import TrialBackend
from syne_tune.backend.trial_status import TrialResult, Status
from syne_tune.constants import ST_WORKER_TIMESTAMP, ST_WORKER_ITER, ST_WORKER_TIME


class ScriptSpec:
    """What the scripted training job does.

    table[t][r-1]: metric(s) of trial t at level r (rows reused cyclically for t >= len(table));
    R: last level a job reports; metric / metrics names; resource_attr; max_resource_attr (a job stops
    by itself at config[max_resource_attr]); checkpointing: resumed / warm-started jobs continue after the
    checkpoint level, else restart at level 1; extra(t, level, run) -> dict merged into each report.
    """

    def __init__(self, table, R, metric="m", metrics=None, resource_attr="epoch", max_resource_attr=None,
                 checkpointing=True, extra=None, value_fn=None):
        self.table = table
        self.R = R
        self.metric = metric
        self.metrics = metrics
        self.resource_attr = resource_attr
        self.max_resource_attr = max_resource_attr
        self.checkpointing = checkpointing
        self.extra = extra
        self.value_fn = value_fn

    def result(self, t, level, run_idx):
        if self.value_fn is not None:
            v = self.value_fn(t, level, run_idx)
        else:
            v = self.table[t % len(self.table)][level - 1]
        res = {self.resource_attr: level}
        if self.metrics:
            for name, x in zip(self.metrics, v):
                res[name] = x
        else:
            res[self.metric] = v
        if self.extra is not None:
            res.update(self.extra(t, level, run_idx))
        return res

    def end_level(self, config):
        if self.max_resource_attr and self.max_resource_attr in config:
            return min(int(config[self.max_resource_attr]), self.R)
        return self.R


ALIVE, EXITED, CRASHED, KILLED, EXTSTOPPED = "alive", "exited", "crashed", "killed", "ext_stopped"


class ScriptedBackend(TrialBackend):
    def __init__(self, chooser, spec: ScriptSpec, n_workers, profile=None, delete_checkpoints=False,
                 fault_budget=0, late_results=True, faults=("crash",), log=None):
        super().__init__(delete_checkpoints=delete_checkpoints)
        self.ch = chooser
        self.spec = spec
        self.n_workers = n_workers
        self.profile = profile or {}
        self.fault_budget = fault_budget
        self.fault_kinds = faults
        self.late_results = late_results
        self.metrics = {}     # trial -> append-only list of reported dicts (all runs)
        self.truth = {}       # trial -> list of (run_idx, idx_in_run, late: bool) aligned with metrics
        self.todo = {}        # trial -> remaining result dicts of the current run
        self.proc = {}        # trial -> ALIVE / EXITED / ...
        self.shown = {}       # trial -> Status shown to the tuner
        self.lagged = set()
        self.run_idx = {}
        self.emitted_in_run = {}
        self.ckpt = {}        # trial -> level of the checkpoint
        self.deleted = set()  # trials whose checkpoint was deleted (and not rewritten since)
        self.ts = 0
        self.log = log if log is not None else []  # ground-truth event log (shared with the recorder)
        self.polls = 0
        self.in_stop_all = False
        self.max_occupied = 0
        self._rr_last = -1

    # ----------------------------------------------------------------- bookkeeping
    def occupied(self):
        return [t for t, p in self.proc.items() if p == ALIVE]

    def entrypoint_path(self) -> Path:
        return Path("scripted_job.py")

    def set_path(self, results_root=None, tuner_name=None):
        pass

    def stdout(self, trial_id):
        return []

    def stderr(self, trial_id):
        return []

    # ----------------------------------------------------------------- abstract hooks
    def _schedule(self, trial_id, config):
        r = self.run_idx.get(trial_id, -1) + 1
        self.run_idx[trial_id] = r
        start = 0
        has_ckpt = trial_id in self.ckpt
        if self.spec.checkpointing and has_ckpt:
            start = self.ckpt[trial_id]
        end = self.spec.end_level(config)
        self.todo[trial_id] = [self.spec.result(trial_id, lv, r) for lv in range(start + 1, end + 1)]
        occ = self.occupied()
        self.log.append(("schedule", trial_id, r, start, end, len(occ), has_ckpt, trial_id in self.deleted))
        self.proc[trial_id] = ALIVE
        self.shown[trial_id] = Status.in_progress
        self.emitted_in_run[trial_id] = 0
        self.lagged.discard(trial_id)
        self.metrics.setdefault(trial_id, [])
        self.truth.setdefault(trial_id, [])
        self.max_occupied = max(self.max_occupied, len(occ) + 1)

    def _resume_trial(self, trial_id):
        self.log.append(("resume", trial_id, trial_id in self.ckpt, trial_id in self.deleted))

    def _kill(self, trial_id, how):
        if self.proc.get(trial_id) == ALIVE:
            if self.late_results and self.todo.get(trial_id):
                if self.ch.choose("late", 2) == 1:
                    self._emit(trial_id, late=True)
            self.proc[trial_id] = KILLED
        self.todo[trial_id] = []
        self.log.append((how, trial_id, self.run_idx.get(trial_id)))

    def _pause_trial(self, trial_id, result):
        self._kill(trial_id, "pause")
        # modelling decision: the job is resumed from the checkpoint of the level it was paused at (output and
        # checkpoints the job produced after that level, while running ahead of the tuner, are discarded)
        if result is not None and trial_id in self.ckpt and self.spec.resource_attr in result:
            self.ckpt[trial_id] = min(self.ckpt[trial_id], int(result[self.spec.resource_attr]))
        self.shown[trial_id] = Status.paused

    def _stop_trial(self, trial_id, result):
        self._kill(trial_id, "stop")
        self.shown[trial_id] = Status.stopped

    def copy_checkpoint(self, src_trial_id, tgt_trial_id):
        self.log.append(("copy", src_trial_id, tgt_trial_id, src_trial_id in self.ckpt, src_trial_id in self.deleted))
        if src_trial_id in self.ckpt:
            self.ckpt[tgt_trial_id] = self.ckpt[src_trial_id]
            self.deleted.discard(tgt_trial_id)

    def delete_checkpoint(self, trial_id):
        self.log.append(("delete", trial_id, trial_id in self.ckpt, self.shown.get(trial_id), self.in_stop_all))
        if trial_id in self.ckpt:
            del self.ckpt[trial_id]
            self.deleted.add(trial_id)

    def busy_trial_ids(self):
        # (only used with start_jobs_without_delay=False) a job whose script is finished may exit between the last poll
        # and this query: then the backend's busy list is shorter than the tuner's running set
        for t in sorted(self.lagged):
            if self.proc.get(t) == ALIVE and not self.todo.get(t):
                if self.ch.choose("busy_exit", 2) == 1:
                    self.proc[t] = EXITED
                    self.shown[t] = Status.completed
                    self.lagged.discard(t)
                    self.log.append(("exit", t, self.run_idx[t]))
        return [(t, s) for t, s in self.shown.items() if s == Status.in_progress]

    def stop_all(self):
        self.in_stop_all = True
        self.log.append(("stop_all",))
        try:
            super().stop_all()
        finally:
            self.in_stop_all = False

    def mid_poll(self, t):
        """the job of trial t prints its remaining reports and exits *while* the backend is polling it (between the
        backend's reads of its log and of its process status); only offered when self.midpoll is set"""
        if not getattr(self, "midpoll", False) or self.proc.get(t) != ALIVE or not self.todo.get(t):
            return False
        if self.ch.choose("midpoll", 2) == 0:
            return False
        while self.todo[t]:
            self._emit(t)
        self.proc[t] = EXITED
        self.shown[t] = Status.completed
        self.lagged.discard(t)
        self.log.append(("exit", t, self.run_idx[t]))
        return True

    # ----------------------------------------------------------------- emission
    def _emit(self, t, late=False):
        m = dict(self.todo[t].pop(0))
        m[ST_WORKER_TIMESTAMP] = self.ts
        m[ST_WORKER_ITER] = self.emitted_in_run[t]
        m[ST_WORKER_TIME] = float(self.emitted_in_run[t] + 1)   # seconds since this job started (a resumed job starts at 0 again)
        self.ts += 1
        self.metrics[t].append(m)
        self.truth[t].append((self.run_idx[t], self.emitted_in_run[t], late))
        self.log.append(("emit", t, self.run_idx[t], self.emitted_in_run[t], m[self.spec.resource_attr], late))
        self.emitted_in_run[t] += 1
        if not late:
            self.ckpt[t] = m[self.spec.resource_attr]  # checkpoint written with every report
            self.deleted.discard(t)

    def _n_new_options(self, rem):
        base = [rem, 1, 0, 2] if self.profile.get("burst") else [1, 0, 2, rem]
        out = []
        for x in base:
            if x <= rem and x not in out:
                out.append(x)
        return out

    def _all_trial_results(self, trial_ids):
        if not self.in_stop_all:
            self.polls += 1
            self.log.append(("poll", self.polls, tuple(trial_ids)))
            # every live job makes progress between two polls, whether or not the tuner asks about it
            alive = [t for t in sorted(self.proc) if self.proc.get(t) == ALIVE]
            counts = {}
            for t in alive:
                rem = len(self.todo[t])
                if rem > 0:
                    opts = self._n_new_options(rem)
                    counts[t] = opts[self.ch.choose("n_new", len(opts))]
                else:
                    counts[t] = 0
            # merge order of the worker time stamps of different trials' new results
            order = []
            left = {t: c for t, c in counts.items() if c > 0}
            cur = None
            while left:
                ts_ = sorted(left)
                if len(ts_) > 1:
                    if self.profile.get("rr"):
                        # default: next trial id after the previous emitter (round robin)
                        after = [t for t in ts_ if cur is None or t > cur] + [t for t in ts_ if cur is not None and t <= cur]
                        opts = after
                    else:
                        # default: stay with the current trial (trial-major)
                        opts = ([cur] if cur in left else []) + [t for t in ts_ if t != cur]
                    cur = opts[self.ch.choose("merge", len(opts))]
                else:
                    cur = ts_[0]
                order.append(cur)
                left[cur] -= 1
                if left[cur] == 0:
                    del left[cur]
            for t in order:
                self._emit(t)
            # status of each alive job after this poll's output
            for t in alive:
                if self.fault_budget > 0:
                    kinds = ["none"] + list(self.fault_kinds)
                    k = kinds[self.ch.choose("fault", len(kinds))]
                    if k != "none":
                        self.fault_budget -= 1
                        self.proc[t] = CRASHED if k == "crash" else EXTSTOPPED
                        self.shown[t] = Status.failed if k == "crash" else Status.stopped
                        self.todo[t] = []
                        self.log.append((k, t, self.run_idx[t]))
                        continue
                if not self.todo[t]:
                    if t in self.lagged:
                        exit_now = True
                    else:
                        opts = [False, True] if self.profile.get("lag") else [True, False]
                        exit_now = opts[self.ch.choose("exit", 2)]
                    if exit_now:
                        self.proc[t] = EXITED
                        self.shown[t] = Status.completed
                        self.log.append(("exit", t, self.run_idx[t]))
                    else:
                        self.lagged.add(t)
        res = []
        for t in trial_ids:
            tr = self._trial_dict[t]
            res.append(TrialResult(trial_id=t, config=tr.config, creation_time=tr.creation_time,
                                   metrics=list(self.metrics.get(t, [])), status=self.shown.get(t, Status.in_progress)))
        return res


# ============================================================================ real file layer

class _FakeProcess:
    """stands in for subprocess.Popen: LocalBackend only uses poll() and kill()"""

    def __init__(self):
        self.returncode = None

    def poll(self):
        return self.returncode

    def kill(self):
        if self.returncode is None:
            self.returncode = -9


def make_scripted_local_backend(chooser, spec, n_workers, profile=None, delete_checkpoints=False, fault_budget=0,
                                late_results=True, faults=("crash",), log=None, midpoll=False):
    """ScriptedLocalBackend(LocalBackend): keeps the *real* file logic of LocalBackend - std.out written as tagged report
    lines and read back through stdout()/retrieve, pause/stop marker files and _read_status, shutil checkpoint copy/delete,
    busy-candidate bookkeeping - and only replaces subprocess.Popen by scripted workers (a ScriptedBackend instance used as
    the worker simulator, never as the backend the Tuner talks to)."""
    import json
    import os
    from syne_tune.backend.local_backend import LocalBackend
    from syne_tune.report import _serialize_report_dict
    from syne_tune.constants import ST_SAGEMAKER_METRIC_TAG
    from .tunerx import scratch_dir

    entry = os.path.join(scratch_dir(), "scripted_job.py")
    if not os.path.exists(entry):
        with open(entry, "w") as f:
            f.write("# scripted\n")

    class ScriptedLocalBackend(LocalBackend):
        def __init__(self):
            super().__init__(entry_point=entry, delete_checkpoints=delete_checkpoints, rotate_gpus=False)
            self.sim = ScriptedBackend(chooser, spec, n_workers, profile=profile, delete_checkpoints=False,
                                       fault_budget=fault_budget, late_results=late_results, faults=faults, log=log)
            self.log = self.sim.log
            self.sim.midpoll = midpoll
            self.written = {}
            self._how = "stop"
            self._in_stop_all = False

        # attributes the monitors read
        metrics = property(lambda self: self.sim.metrics)
        truth = property(lambda self: self.sim.truth)
        proc = property(lambda self: self.sim.proc)
        spec = property(lambda self: self.sim.spec)
        ckpt = property(lambda self: self.sim.ckpt)
        deleted = property(lambda self: self.sim.deleted)

        def _ckpt_file(self, t):
            return self.checkpoint_trial_path(t) / "ckpt.json"

        def _sync_files(self):
            for t, lst in self.sim.metrics.items():
                n0 = self.written.get(t, 0)
                if len(lst) > n0:
                    os.makedirs(self.trial_path(t), exist_ok=True)
                    with open(self.trial_path(t) / "std.out", "a") as f:
                        for m, (r, i, late) in zip(lst[n0:], self.sim.truth[t][n0:]):
                            f.write(f"[{ST_SAGEMAKER_METRIC_TAG}]: {_serialize_report_dict(m)}\n")
                            if not late:
                                os.makedirs(self.checkpoint_trial_path(t), exist_ok=True)
                                with open(self._ckpt_file(t), "w") as g:
                                    json.dump({"level": m[self.sim.spec.resource_attr]}, g)
                    self.written[t] = len(lst)
            for t, p in self.sim.proc.items():
                fp = self.trial_subprocess.get(t)
                if fp is None:
                    continue
                if p == EXITED and fp.returncode is None:
                    fp.returncode = 0
                elif p == CRASHED and fp.returncode is None:
                    fp.returncode = 1
                elif p == EXTSTOPPED and fp.returncode is None:
                    self._file_path(trial_id=t, filename="stop").touch()
                    fp.returncode = -15

        def _schedule(self, trial_id, config):
            # the real LocalBackend._schedule (directory handling, log files, config.json, command line) with only the
            # process creation replaced: whatever it does to the trial directory is seen by the scripted job below
            import subprocess as _sp
            orig_popen = _sp.Popen
            _sp.Popen = lambda *a, **kw: _FakeProcess()
            try:
                LocalBackend._schedule(self, trial_id, config)
            finally:
                _sp.Popen = orig_popen
            # the checkpoint *file* decides where the job continues
            if self._ckpt_file(trial_id).exists():
                self.sim.ckpt[trial_id] = int(json.load(open(self._ckpt_file(trial_id)))["level"])
            else:
                self.sim.ckpt.pop(trial_id, None)

            class _T:
                pass
            stub = _T()
            stub.config = config
            stub.creation_time = env.DT0
            self.sim._trial_dict[trial_id] = stub
            self.sim._schedule(trial_id, config)

        def _all_trial_results(self, trial_ids):
            if not self._in_stop_all:
                self.sim._all_trial_results([t for t in trial_ids])
                self._sync_files()
            self._polling, self._mid_done = not self._in_stop_all, set()
            try:
                return super()._all_trial_results(trial_ids)
            finally:
                self._polling = False

        # LocalBackend reads a trial's process status and its log one after the other: the job may print and exit in between
        def _between_reads(self, t):
            if getattr(self, "_polling", False) and t not in self._mid_done:
                self._mid_done.add(t)
                if self.sim.mid_poll(t):
                    self._sync_files()

        def _read_status(self, trial_id):
            st = super()._read_status(trial_id)
            self._between_reads(trial_id)
            return st

        def stdout(self, trial_id):
            out = super().stdout(trial_id)
            self._between_reads(trial_id)
            return out

        def _kill_process(self, trial_id):
            self.sim._kill(trial_id, self._how)
            self._sync_files()
            super()._kill_process(trial_id)

        def _pause_trial(self, trial_id, result):
            self._how = "pause"
            super()._pause_trial(trial_id, result)
            self.sim.shown[trial_id] = Status.paused
            if result is not None and self._ckpt_file(trial_id).exists() and self.sim.spec.resource_attr in result:
                lvl = min(int(json.load(open(self._ckpt_file(trial_id)))["level"]), int(result[self.sim.spec.resource_attr]))
                with open(self._ckpt_file(trial_id), "w") as g:
                    json.dump({"level": lvl}, g)
                self.sim.ckpt[trial_id] = lvl

        def _stop_trial(self, trial_id, result):
            self._how = "stop"
            super()._stop_trial(trial_id, result)
            self.sim.shown[trial_id] = Status.stopped

        def _resume_trial(self, trial_id):
            self.sim._resume_trial(trial_id)
            super()._resume_trial(trial_id)

        def copy_checkpoint(self, src_trial_id, tgt_trial_id):
            exists = self.checkpoint_trial_path(src_trial_id).exists()
            self.sim.log.append(("copy", src_trial_id, tgt_trial_id, exists, src_trial_id in self.sim.deleted))
            super().copy_checkpoint(src_trial_id, tgt_trial_id)
            self.sim.deleted.discard(tgt_trial_id)

        def delete_checkpoint(self, trial_id):
            self.sim.in_stop_all = self._in_stop_all
            self.sim.delete_checkpoint(trial_id)
            super().delete_checkpoint(trial_id)

        def stop_all(self):
            self._in_stop_all = True
            self.sim.log.append(("stop_all",))
            try:
                super().stop_all()
            finally:
                self._in_stop_all = False

    return ScriptedLocalBackend()
