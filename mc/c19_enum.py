"""C19 part 1: bounded-exhaustive input enumeration of pareto_efficient / nondominated_sort /
MOPriority objects against brute-force dominance (mc.refs.moasha).

Space: every ORDERED sequence of n points of a finite grid G^d (ties and duplicates included), every
``dim`` in {None, 0..d-1}, every ``max_items`` in {None, 1..n+1}, ``flatten`` in {True, False}.
``dim=None`` makes compute_epsilon_net draw ``np.random.choice(k)`` once per Pareto layer: the harness owns
that call and enumerates every answer vector (depth-first over the scripted answers).
"""
import contextlib
import io
import itertools

import numpy as np

from . import env  # noqa: F401
from .core import Coverage
from .refs.moasha import dominates, pareto_mask, layers, layers_by_chain, rank_consistent, order_consistent

with contextlib.redirect_stdout(io.StringIO()):
    from syne_tune.optimizer.schedulers.multiobjective import non_dominated_priority as ndp
    from syne_tune.optimizer.schedulers.multiobjective import multiobjective_priority as mop

PROP = "C19"


# ------------------------------------------------------------------------------ RNG seam

class Script:
    """Scripted replacement of np.random.choice(k): answers[i] for the i-th call, 0 beyond the script."""

    def __init__(self, answers=()):
        self.answers = list(answers)
        self.asked = []

    def choice(self, a, size=None, replace=True, p=None):
        k = int(a)
        i = len(self.asked)
        self.asked.append(k)
        ans = self.answers[i] if i < len(self.answers) else 0
        if not 0 <= ans < k:
            raise RuntimeError(f"harness: scripted answer {ans} outside range({k})")
        return ans


@contextlib.contextmanager
def owned_choice(script):
    old = np.random.choice
    np.random.choice = script.choice
    try:
        yield script
    finally:
        np.random.choice = old


def all_answer_runs(fn):
    """Run fn() under every possible answer vector of np.random.choice; yields (answers, result_or_exc)."""
    stack = [[]]
    while stack:
        ans = stack.pop()
        sc = Script(ans)
        with owned_choice(sc):
            try:
                out = ("ok", fn())
            except Exception as e:  # the code under test raised
                out = ("exc", e)
        full = ans + [0] * (len(sc.asked) - len(ans))
        for i in range(len(ans), len(sc.asked)):
            for alt in range(1, sc.asked[i]):
                stack.append(full[:i] + [alt])
        yield full[:len(sc.asked)], out


# ------------------------------------------------------------------------------- oracles

def _pattern(P):
    n = len(P)
    lay = layers(P) if n else []
    tags = [f"n={n}", f"d={len(P[0]) if n else '?'}", f"layers={max(lay) + 1 if lay else 0}"]
    if len(set(P)) < n:
        tags.append("dup")
    return ",".join(tags)


def check_pareto(P, X):
    """-> list of (key, what)"""
    n = len(P)
    try:
        m = ndp.pareto_efficient(X)
    except Exception as e:
        return [(f"pareto_efficient:exception:{type(e).__name__}:{'empty' if n == 0 else 'nonempty'}",
                 f"pareto_efficient raised {type(e).__name__}: {e} on {P}")]
    m = np.asarray(m)
    if m.shape != (n,) or m.dtype != np.bool_:
        return [("pareto_efficient:result-not-bool-vector-of-length-N", f"{m!r} for {P}")]
    ref = pareto_mask(P)
    out = []
    for i in range(n):
        if bool(m[i]) == ref[i]:
            continue
        if m[i]:
            doms = [j for j in range(n) if dominates(P[j], P[i])]
            tie = all(any(a == b for a, b in zip(P[j], P[i])) for j in doms)
            out.append((f"pareto_efficient:dominated-point-marked-efficient:"
                        f"{'every-dominator-ties-in-a-coordinate' if tie else 'strictly-dominated'}",
                        f"point {i} of {P} is dominated by point(s) {doms} but marked efficient (mask {m.tolist()})"))
        else:
            kind = "duplicate-of-efficient-point" if P.count(P[i]) > 1 else "incomparable-point"
            out.append((f"pareto_efficient:nondominated-point-dropped:{kind}",
                        f"point {i} of {P} is dominated by no point but marked inefficient (mask {m.tolist()})"))
    return out[:2]


def _is_int(x):
    return isinstance(x, (int, np.integer)) and not isinstance(x, (bool, np.bool_))


def check_sort(res, lay, n, max_items, flatten, tag):
    """documented contract of nondominated_sort -> list of (key, what-suffix)"""
    k0 = f"nondominated_sort[{tag}]"
    if not isinstance(res, list):
        return [(f"{k0}:result-not-a-list", repr(res))]
    if flatten:
        flat = res
    else:
        if not all(isinstance(x, list) for x in res):
            return [(f"{k0}:flatten-false-not-list-of-lists", repr(res))]
        if any(len(x) == 0 for x in res):
            return [(f"{k0}:flatten-false-empty-front", repr(res))]
        flat = [i for x in res for i in x]
    if not all(_is_int(i) and 0 <= i < n for i in flat):
        return [(f"{k0}:index-not-in-range", repr(res))]
    out = []
    if len(set(flat)) != len(flat):
        out.append((f"{k0}:index-repeated", repr(res)))
    want = n if max_items is None else min(max_items, n)
    if len(flat) != want:
        if max_items is None:
            out.append((f"{k0}:index-missing", f"{res!r}: {len(flat)} of {n} indices"))
        else:
            out.append((f"{k0}:max_items:{'more' if len(flat) > want else 'fewer'}-than-min(max_items,N)-returned",
                        f"{res!r}: {len(flat)} items, max_items={max_items}, N={n}"))
    if any(lay[flat[k]] > lay[flat[k + 1]] for k in range(len(flat) - 1)):
        out.append((f"{k0}:later-layer-before-earlier-layer", f"{res!r} layers {[lay[i] for i in flat]}"))
    got = set(flat)
    if flat and any(lay[j] < max(lay[i] for i in flat) and j not in got for j in range(n)):
        out.append((f"{k0}:earlier-layer-point-skipped", f"{res!r} layers of all points {lay}"))
    if not flatten:
        for k, x in enumerate(res):
            if any(lay[i] != k for i in x):
                out.append((f"{k0}:flatten-false-sublist-is-not-the-kth-front", f"{res!r} layers {lay}"))
                break
    return out


def check_priority_nd(p, lay, n, tag):
    k0 = "NonDominatedPriority"
    p = np.asarray(p)
    if p.shape != (n,):
        return [(f"{k0}[{tag}]:priority-shape-not-(num_samples,)", f"shape {p.shape} for {n} samples")]
    pl = p.tolist()
    if rank_consistent(pl, lay):
        return []
    if order_consistent(pl, lay):
        return [(f"{k0}:rank-vs-argsort:priority-vector-is-the-sort-order",
                 f"priorities {pl} (documented: lower = picked first) are the list of sorted indices, not the rank of "
                 f"each element; layers {lay}; {tag}")]
    return [(f"{k0}:priority-not-pareto-consistent", f"priorities {pl} layers {lay}")]


# ---------------------------------------------------------------------------------- task

def _x(cov, name, k=1):
    cov.extra[name] = cov.extra.get(name, 0) + k


def _call(fn):
    try:
        return "ok", fn()
    except Exception as e:
        return "exc", e


def eval_pointset(P, d, spec, cov, found):
    """Run every enumerated call for one ordered point set P (tuple of d-tuples)."""
    n = len(P)
    X = np.array(P, dtype=float).reshape(n, d)
    lay = layers(P) if n else []
    multi = n >= 2 and (max(lay) > 0 or any(
        a == b for i in range(n) for j in range(i + 1, n) for a, b in zip(P[i], P[j])))
    if multi:
        cov.add("distinct_nontrivial")
        if max(lay) > 0:
            _x(cov, "pointsets_with_two_or_more_layers")
        if len(set(P)) < n:
            _x(cov, "pointsets_with_duplicates")

    def report(vs, call):
        for key, what in vs:
            cov.outcome("violation:" + key.split(":")[0])
            if key not in found:
                found[key] = (key, what, dict(call, points=[list(p) for p in P], d=d))

    # -- pareto_efficient
    cov.add("evaluations")
    report(check_pareto(list(P), X), {"fn": "pareto_efficient"})
    if spec.get("pareto_only"):
        return

    # -- nondominated_sort
    max_items_list = [None] if n == 0 else [None] + [m for m in range(1, n + 2) if spec["max_items"](m, n)]
    dims = list(range(d)) + [None]
    for dim in dims:
        for mi in max_items_list:
            tag0 = f"dim={'none' if dim is None else 'int'},max_items={'none' if mi is None else 'set'}"
            runs = {}
            for flatten in (False, True):
                fn = (lambda: ndp.nondominated_sort(X, dim=dim, max_items=mi, flatten=flatten))
                if dim is None:
                    it = all_answer_runs(fn)
                else:
                    it = [((), _call(fn))]
                for ans, (st, res) in it:
                    cov.add("evaluations")
                    call = {"fn": "nondominated_sort", "dim": dim, "max_items": mi, "flatten": flatten,
                            "answers": list(ans)}
                    tag = f"{tag0},flatten={str(flatten).lower()}"
                    if st == "exc":
                        report([(f"nondominated_sort[{tag}]:exception:{type(res).__name__}",
                                 f"{type(res).__name__}: {res}")], call)
                        cov.outcome("sort:exception")
                        continue
                    vs = check_sort(res, lay, n, mi, flatten, tag)
                    report([(k, f"{w} for points {list(P)} dim={dim} max_items={mi} answers={list(ans)}")
                            for k, w in vs], call)
                    cov.outcome(f"sort:{'ok' if not vs else 'bad'}:{'all' if mi is None or mi >= n else 'truncated'}")
                    runs[(tuple(ans), flatten)] = res
                    if dim is not None and not flatten and mi is None and res and not vs:
                        # observation only (not part of C19): documented seed item of each front = argmin in dim
                        for front in res:
                            if P[front[0]][dim] != min(P[i][dim] for i in front):
                                _x(cov, "obs_front_not_led_by_argmin_of_dim")
                                break
            for (ans, fl), res in runs.items():
                if fl or (ans, True) not in runs:
                    continue
                flat = runs[(ans, True)]
                if isinstance(res, list) and all(isinstance(x, list) for x in res) and \
                        [i for x in res for i in x] != flat:
                    report([(f"nondominated_sort[{tag0}]:flatten-true-differs-from-flattened-flatten-false",
                             f"{res!r} vs {flat!r} for points {list(P)}")],
                           {"fn": "nondominated_sort", "dim": dim, "max_items": mi, "flatten": "both",
                            "answers": list(ans)})

    if n == 0 or spec.get("no_priorities"):
        return
    # -- priority objects (documented: vector of shape (num_samples,), lower = picked first)
    for dim in dims:
        for mns in (None, n + 1) if dim in (0, None) else (None,):
            fn = (lambda: mop.NonDominatedPriority(dim=dim, max_num_samples=mns)(X))
            it = all_answer_runs(fn) if dim is None else [((), _call(fn))]
            tag = f"dim={'none' if dim is None else 'int'},max_num_samples={'none' if mns is None else '>N'}"
            for ans, (st, res) in it:
                cov.add("evaluations")
                call = {"fn": "NonDominatedPriority", "dim": dim, "max_num_samples": mns, "answers": list(ans)}
                if st == "exc":
                    report([(f"NonDominatedPriority[{tag}]:exception:{type(res).__name__}", str(res))], call)
                    continue
                vs = check_priority_nd(res, lay, n, tag)
                cov.outcome("ndpriority:" + ("ok" if not vs else "bad"))
                report([(k, f"{w}; points {list(P)}") for k, w in vs], call)
    for dim in [None] + list(range(d)):
        cov.add("evaluations")
        st, res = _call(lambda: mop.FixedObjectivePriority(dim=dim)(X))
        call = {"fn": "FixedObjectivePriority", "dim": dim}
        if st == "exc":
            report([(f"FixedObjectivePriority:exception:{type(res).__name__}", str(res))], call)
        else:
            res = np.asarray(res)
            if res.shape != (n,) or res.tolist() != [float(p[dim or 0]) for p in P]:
                report([("FixedObjectivePriority:priority-is-not-the-chosen-objective",
                         f"{res.tolist()} for points {list(P)} dim={dim}")], call)
    for w in spec["weights"](d):
        cov.add("evaluations")
        st, res = _call(lambda: mop.LinearScalarizationPriority(weights=w)(X))
        call = {"fn": "LinearScalarizationPriority", "weights": w}
        if st == "exc":
            report([(f"LinearScalarizationPriority:exception:{type(res).__name__}", str(res))], call)
            continue
        res = np.asarray(res)
        ww = [1.0] * d if w is None else w
        want = [sum(a * b for a, b in zip(ww, p)) / d for p in P]
        if res.shape != (n,) or any(abs(a - b) > 1e-9 for a, b in zip(res.tolist(), want)):
            report([("LinearScalarizationPriority:priority-is-not-the-weighted-mean",
                     f"{res.tolist()} vs {want} for points {list(P)} weights={w}")], call)
        elif any(dominates(P[i], P[j]) and not res[i] < res[j] for i in range(n) for j in range(n)):
            report([("LinearScalarizationPriority:dominating-point-not-preferred",
                     f"{res.tolist()} for points {list(P)} weights={w}")], call)


def _weights(d):
    return [None, [float(k + 1) for k in range(d)]]


SPECS = {
    # full cross product
    "full": dict(max_items=lambda m, n: True, weights=_weights),
    # large-n slice of the quick tier: max_items in {None, 1, n-1, n+1}
    "slim": dict(max_items=lambda m, n: m in (1, n - 1, n + 1), weights=_weights),
    # the largest slice of the thorough tier: max_items in {None, 1..n} (without n+1)
    # and the sort/filter functions only (the priority classes are enumerated on all the other slices)
    "spec": dict(max_items=lambda m, n: m <= n, weights=_weights, no_priorities=True),
    "pareto": dict(pareto_only=True),
}


def task(t):
    """t = (grid values, d, n, prefix (tuple of point indices), spec name) -> (Coverage, [violation tuples])"""
    vals, d, n, prefix, spec_name = t
    spec = SPECS[spec_name]
    grid = list(itertools.product(vals, repeat=d))
    cov = Coverage()
    found = {}
    pre = tuple(grid[i] for i in prefix)
    for rest in itertools.product(grid, repeat=n - len(prefix)):
        eval_pointset(pre + rest, d, spec, cov, found)
    _x(cov, "pointsets", len(grid) ** (n - len(prefix)))
    if d >= 2 and n >= 3 and all(i == 0 for i in prefix):
        P = pre + tuple(grid[(2 * k * k + 3 * k + 1) % len(grid)] for k in range(n - len(prefix)))
        X = np.array(P, dtype=float).reshape(n, d)
        st, res = _call(lambda: ndp.nondominated_sort(X, dim=0, flatten=False))
        st2, m = _call(lambda: ndp.pareto_efficient(X).tolist())
        cov.sample({"points": [list(p) for p in P], "reference_layers": layers(P), "pareto_efficient": m if st2 == "ok"
                    else repr(m), "nondominated_sort(dim=0,flatten=False)": res if st == "ok" else repr(res)})
    return cov, list(found.values())


PER_TASK = {"full": 250, "spec": 250, "slim": 500, "pareto": 30000}


def tasks_for(vals, d, n, spec_name, per_task=None):
    per_task = per_task or PER_TASK[spec_name]
    g = len(vals) ** d
    plen = 0
    while plen < n and g ** (n - plen) > per_task:
        plen += 1
    return [(tuple(vals), d, n, pre, spec_name) for pre in itertools.product(range(g), repeat=plen)]


def plan(tier):
    """list of (vals, d, n, spec)"""
    G3, G2 = (0, 1, 2), (0, 1)
    out = []
    if tier == "quick":
        out += [(G3, 1, n, "full") for n in range(0, 6)]
        out += [(G3, 2, n, "full") for n in range(0, 5)]
        out += [(G3, 2, 5, "pareto")]
        out += [(G3, 3, n, "full") for n in range(0, 3)]
        out += [(G3, 3, 3, "pareto"), (G3, 3, 4, "pareto")]
        out += [(G2, 3, 4, "full"), (G2, 4, 3, "full"), (G2, 5, 2, "full")]
    else:
        out += [(G3, 1, n, "full") for n in range(0, 7)]
        out += [(G3, 2, n, "full") for n in range(0, 6)]
        out += [(G3, 3, n, "full") for n in range(0, 4)] + [(G3, 3, 4, "spec")]
        out += [(G3, 4, n, "full") for n in range(0, 3)] + [(G3, 4, 3, "pareto")]
        out += [(G3, 5, n, "full") for n in range(0, 3)]
        out += [(G2, 4, 3, "full"), (G2, 4, 4, "pareto")]
        out += [(G2, 5, 3, "full"), (G2, 5, 4, "pareto")]
    return out


def self_check():
    """the two formulations of 'Pareto layer' agree on a complete small space (guards the oracle itself)"""
    grid = list(itertools.product((0, 1, 2), repeat=2))
    for n in range(1, 4):
        for P in itertools.product(grid, repeat=n):
            assert layers(P) == layers_by_chain(P), P


def replay_case(data):
    """re-run one recorded call -> list of (key, what)"""
    P = tuple(tuple(p) for p in data["points"])
    d = data["d"]
    cov = Coverage()
    found = {}
    eval_pointset(P, d, SPECS["full"], cov, found)
    return [(k, w) for k, w, _ in found.values()]
