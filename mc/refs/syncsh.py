"""Reference model of synchronous Hyperband bracket filling (C05), from the class docstrings:
jobs go to the lowest-id open bracket with a free slot in its current rung, else a new bracket
(offset = id mod #systems) is opened; a rung completes when all its slots reported (failed = NaN,
ranked last); the best n' trials are the slots of the next rung."""
import math

from ..schedx import Oracle, PAUSED

FREE, PENDING, DONE = "free", "pending", "done"


def geometric(min_r, max_r, rf, num_brackets=None):
    s_max = 0
    while min_r * rf ** s_max < max_r:
        s_max += 1
    if s_max <= 0:
        return [[(1, max_r)]]
    nb = s_max + 1 if num_brackets is None else min(num_brackets, s_max + 1)
    systems = []
    for s in range(nb):
        r_num = s_max - s + 1
        rungs = []
        for r in range(r_num - 1):
            level = int(round(min_r * rf ** (r + s)))
            size = int(math.ceil((s_max + 1) / r_num * rf ** (r_num - r - 1)))
            rungs.append((size, level))
        rungs.append((int(math.ceil((s_max + 1) / r_num)), max_r))
        systems.append(rungs)
    return systems


class SyncRef(Oracle):
    def __init__(self, systems, mode, mra=None, metric="m"):
        self.systems = systems
        self.mode = mode
        self.mra = mra
        self.brackets = []  # dict(offset, rung, slots=[[trial, status, val]], wild=int)
        self.job = {}       # trial -> (bracket, level)
        self._open(0)

    def _open(self, bid):
        off = bid % len(self.systems)
        size, level = self.systems[off][0]
        self.brackets.append(dict(offset=off, rung=0, slots=[[None, FREE, None] for _ in range(size)], wild=0,
                                  complete=False))

    def _level(self, b):
        return self.systems[b["offset"]][b["rung"]][1]

    def before(self, world, ev):
        if ev[0] != "S":
            return
        self._target = None
        for bid, b in enumerate(self.brackets):
            if b["complete"]:
                continue
            if any(s[1] == FREE for s in b["slots"]):
                self._target = bid
                break
        if self._target is None:
            self._open(len(self.brackets))
            self._target = len(self.brackets) - 1

    def after(self, world, ev, obs):
        if obs[0] == "suggest":
            return self._after_suggest(world, obs)
        if obs[0] == "report":
            return self._after_report(world, obs)
        if obs[0] == "error":
            t = obs[1]
            if t in self.job:
                bid, level = self.job.pop(t)
                self._fill(bid, t, float("nan"))
            return []
        return []

    def _after_suggest(self, world, obs):
        bid = self._target
        b = self.brackets[bid]
        level = self._level(b)
        free = [s for s in b["slots"] if s[1] == FREE]
        if obs[1] == "none":
            return [("sync:suggest-none", "suggest returned None (request for work blocked) on an infinite space")]
        if obs[1] == "over_T":
            return [] if free and free[0][0] is None else [
                ("sync:new-trial-instead-of-resume", f"bracket {bid} rung level {level} has promoted trials waiting "
                 f"{[s[0] for s in free]}, but a new trial was started")]
        if obs[1] == "start":
            t = obs[2]
            if b["rung"] != 0 or not free:
                return [("sync:new-trial-instead-of-resume",
                         f"bracket {bid} rung level {level} has promoted trials waiting {[s[0] for s in free]}, but new trial {t} was started")]
            free[0][0] = t
            free[0][1] = PENDING
            self.job[t] = (bid, level)
            if self.mra:
                got = world.trials[t].config.get(self.mra)
                if got != level:
                    return [("sync:new-trial-wrong-level", f"new trial {t} for bracket {bid} (offset {b['offset']}) told to run to "
                                                           f"{got}, first rung level is {level}")]
            return []
        # resume
        t = obs[2]
        # a failed trial fills a slot of the next rung only because fewer trials survived the rung than the next one has slots?
        self.last_resume_forced = bool(b["rung"] > 0 and b["wild"] > 0 and self._is_failed_in_prev(b, t))
        if obs[4] != PAUSED:
            why = ":rung-has-more-slots-than-survivors" if self.last_resume_forced else ""
            return [(f"sync:resume-not-paused:{obs[4]}{why}", f"trial {t} resumed while {obs[4]}"
                     + (f" (the next rung has {len(b['slots'])} slots, {len(b['slots']) - b['wild']} trials survived the previous one)" if why else ""))]
        cand = [s for s in free if s[0] == t]
        if b["rung"] == 0 or not cand:
            if b["rung"] > 0 and b["wild"] > 0 and self._is_failed_in_prev(b, t):
                b["wild"] -= 1
                for s in free:
                    if s[0] == "*":
                        s[0] = t
                        cand = [s]
                        break
            if not cand:
                return [("sync:wrong-trial-resumed",
                         f"trial {t} resumed to level {level} of bracket {bid}; reference expects one of "
                         f"{[s[0] for s in free]} (rung index {b['rung']})")]
        cand[0][1] = PENDING
        self.job[t] = (bid, level)
        if self.mra:
            got = world.trials[t].config.get(self.mra)
            if got != level:
                return [("sync:resume-wrong-level", f"trial {t} resumed in bracket {bid} told to run to {got}, rung level is {level}")]
        return []

    def _is_failed_in_prev(self, b, t):
        return t in b.get("prev_failed", [])

    def _after_report(self, world, obs):
        _, t, r, d = obs
        if t not in self.job:
            exp = "STOP"
        else:
            bid, level = self.job[t]
            if r < level:
                exp = "CONTINUE"
            else:
                exp = "PAUSE"
                del self.job[t]
                self._fill(bid, t, world.last_res[t][world.metric])
        if d != exp:
            return [(f"sync:decision:{exp}-expected-got-{d}", f"trial {t} level {r}: implementation {d}, reference {exp}")]
        return []

    def _fill(self, bid, t, val):
        b = self.brackets[bid]
        for s in b["slots"]:
            if s[0] == t and s[1] == PENDING:
                s[1] = DONE
                s[2] = val
                break
        if all(s[1] == DONE for s in b["slots"]):
            system = self.systems[b["offset"]]
            if b["rung"] + 1 >= len(system):
                b["complete"] = True
                b["slots"] = []
                return
            new_len = system[b["rung"] + 1][0]
            valid = [s for s in b["slots"] if not (s[2] != s[2])]
            failed = [s[0] for s in b["slots"] if s[2] != s[2]]
            valid.sort(key=lambda s: s[2] if self.mode == "min" else -s[2])
            top = [s[0] for s in valid[:new_len]]
            wild = max(0, new_len - len(top))
            b["rung"] += 1
            b["slots"] = [[x, FREE, None] for x in top] + [["*", FREE, None] for _ in range(wild)]
            b["wild"] = wild
            b["prev_failed"] = failed

    def digest(self):
        return repr((self.brackets, sorted(self.job.items())))
