"""Reference rung-level arithmetic, written from the documentation only."""
import numpy as np


def rung_levels(grace=1, rf=None, inc=None, levels=None, max_t=None):
    if levels is not None:
        lv = [int(x) for x in levels]
    elif rf is not None:
        lv = []
        k = 0
        while grace * float(rf) ** k < max_t:
            lv.append(int(round(grace * float(rf) ** k)))
            k += 1
    else:
        lv = list(range(grace, max_t, inc))
    if lv and lv[-1] == max_t:
        lv = lv[:-1]
    return lv


def prom_quantile(levels, max_t, r):
    j = levels.index(r)
    nxt = (levels + [max_t])[j + 1]
    return r / nxt


def cutoff(values, q, mode):
    """numpy linear-interpolation quantile; q for min, 1-q for max"""
    return float(np.quantile(np.asarray(values, dtype=float), q if mode == "min" else 1.0 - q))


def near(a, b, rel=1e-9):
    return abs(a - b) <= rel * max(1.0, abs(b))
