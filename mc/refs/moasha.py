"""Reference model for C19: brute-force Pareto dominance / layers and the MOASHA decision rule.

Everything here is written from the documentation (docstrings of non_dominated_priority.py,
multiobjective_priority.py, moasha.py; Li et al. "A System for Massively Parallel Hyperparameter
Tuning" (ASHA), which MOASHA's references build on), never from the code path.

Dominance (pareto_efficient docstring, "lower is better"):  p dominates q  iff  p <= q in every
coordinate and p < q in at least one.  Duplicates therefore do not dominate each other.

Pareto layers (nondominated_sort docstring, "iteratively computing the Pareto front"): layer 0 = points no
other point dominates; layer k = the same among the points not in layers < k.

Cut-off convention of the MOASHA rung rule
------------------------------------------
MOASHA docstring: ``reduction_factor`` "Used to set halving rate and amount"; ``_Bracket.on_result`` comment:
"decide to continue if priority is in the top ones according to a rank induced by the reduction_factor";
first result recorded at a rung: "we saw the first result and we continue"; ``max_t``: "Trials will be
stopped after max_t time units".  ASHA (Li et al., Alg. 2 ``get_job``): a configuration is promotable from a
rung iff it is among the top ``floor(|rung| / eta)`` entries of that rung, the rung including the entry
itself.  With r = 1-based rank of the reporting trial among the n entries (itself included):

   strict reading  (ASHA top_k):            continue  iff  r     <= n / rf      (A)
   lenient reading ("fraction of entries
   that are strictly better is <= 1/rf"):   continue  iff  r - 1 <= n / rf      (B)

(the numpy linear-interpolation quantile used by syne-tune's single-objective stopping rule lies between
the two).  The documents do not decide between (A) and (B); they differ for exactly one rank value per n
(r = floor(n/rf) + 1).  The oracle therefore demands
   CONTINUE  when even the most pessimistic rank satisfies (A):   b * rf <= n
   STOP      when even the most optimistic rank violates (B):     a * rf >  n
and accepts both decisions in between, where
   a = number of recorded points strictly better than the reporting trial (strictly earlier Pareto layer /
       strictly smaller scalar priority),
   b = number of recorded points not worse (not-later layer / <= priority), the trial itself included.
For NonDominatedPriority the order inside one Pareto layer is left open by the property (epsilon-net
heuristics, random seed item), which is exactly the a / b slack.  n == 1 always continues; a report with
resource >= max_t always stops.  All comparisons are integer (rf as Fraction), no float cut-offs.
"""
from fractions import Fraction

from ..schedx import Oracle


# ----------------------------------------------------------------------------- dominance

def dominates(p, q):
    le = True
    lt = False
    for a, b in zip(p, q):
        if a > b:
            le = False
            break
        if a < b:
            lt = True
    return le and lt


def pareto_mask(P):
    """mask[i] == True iff no point of P dominates P[i] (pure definition, O(n^2 d))."""
    return [not any(dominates(q, p) for q in P) for p in P]


def layers(P):
    """layer index per point by peeling fronts."""
    n = len(P)
    lay = [None] * n
    remaining = list(range(n))
    k = 0
    while remaining:
        front = [i for i in remaining if not any(dominates(P[j], P[i]) for j in remaining)]
        assert front, "dominance is a strict partial order: a finite set has minimal elements"
        for i in front:
            lay[i] = k
        fs = set(front)
        remaining = [i for i in remaining if i not in fs]
        k += 1
    return lay


def layers_by_chain(P):
    """second, independent formulation: 1 + longest chain of dominators (used as a self-check)."""
    n = len(P)
    memo = {}

    def depth(i):
        if i not in memo:
            memo[i] = 0  # strict order: no cycles
            ds = [depth(j) for j in range(n) if dominates(P[j], P[i])]
            memo[i] = 1 + max(ds) if ds else 0
        return memo[i]

    return [depth(i) for i in range(n)]


def rank_consistent(prio, lay):
    """prio is a priority vector (lower = first): earlier layer => strictly smaller priority."""
    n = len(lay)
    if len(prio) != n:
        return False
    return all(prio[i] < prio[j] for i in range(n) for j in range(n) if lay[i] < lay[j])


def order_consistent(seq, lay):
    """seq is a sort order (list of indices): a permutation of 0..n-1 with non-decreasing layers."""
    n = len(lay)
    try:
        s = [int(x) for x in seq]
    except (TypeError, ValueError):
        return False
    if sorted(s) != list(range(n)) or any(float(x) != int(x) for x in seq):
        return False
    return all(lay[s[k]] <= lay[s[k + 1]] for k in range(n - 1))


# ------------------------------------------------------------------------- rung arithmetic

def moasha_levels(grace, rf, max_t, s):
    """rung levels of bracket s below max_t: grace * rf**k for k >= s (documented: each bracket has a
    different grace period and number of rung levels)."""
    out = []
    k = s
    while grace * rf ** k < max_t:
        out.append(grace * rf ** k)
        k += 1
    return out


def decision_band(a, b, n, rf):
    """documented decision set for ranks a (optimistic, 0-based) / b (pessimistic, 1-based) of n."""
    rf = Fraction(rf)
    if n <= 1:
        return {"CONTINUE"}, "first-entry"
    if b * rf <= n:
        return {"CONTINUE"}, "rank"
    if a * rf > n:
        return {"STOP"}, "rank"
    return {"CONTINUE", "STOP"}, "boundary"


PRIO_NAMES = {"nd": "nondominated", "fixed": "fixedobjective", "lin": "linearscalarization"}


class MoashaRef(Oracle):
    """Lock-step reference of MOASHA's stopping decisions.

    prio: ("nd", dim_or_None) | ("fixed", dim) | ("lin", weights or None)
    modes: list of "min"/"max" per metric (already expanded from the constructor argument as documented:
           a single string applies to all metrics, None means "min").
    """

    def __init__(self, metrics, modes, grace, rf, max_t, nb, prio):
        self.metrics = list(metrics)
        self.signs = [1.0 if m == "min" else -1.0 for m in modes]
        self.rf = rf
        self.max_t = max_t
        self.nb = nb
        self.levels = [moasha_levels(grace, rf, max_t, s) for s in range(nb)]
        self.prio = prio
        self.rungs = [dict() for _ in range(nb)]  # bracket -> level -> [(trial, vec)] in arrival order
        self.bracket = {}
        self._pending = 0
        self.last_why = None

    # -- lock-step
    def before(self, world, ev):
        if ev[0] == "S":
            self._pending = ev[1] or 0

    def canonical(self, res):
        return tuple(s * float(res[m]) for s, m in zip(self.signs, self.metrics))

    def after(self, world, ev, obs):
        if obs[0] == "suggest":
            if obs[1] == "start":
                self.bracket[obs[2]] = self._pending
            elif obs[1] == "resume":
                return [("moasha:resume-suggested", "MOASHA (a stopping scheduler) suggested to resume a trial")]
            return []
        self.last_why = None
        if obs[0] != "report":
            return []
        _, t, r, d = obs
        vec = self.canonical(world.last_res[t])
        b = self.bracket[t]
        exp, why, info = self.expected(t, r, vec, b)
        self.last_why = why + ("-within-layer-slack" if why == "boundary" and "slack" in info else "")
        if d in exp:
            return []
        name = PRIO_NAMES[self.prio[0]]
        clause = "decision"
        if self.prio[0] == "nd" and why in ("rank",):
            clause = self.diagnose(world, b, r) or clause
        want = "/".join(sorted(x.lower() for x in exp))
        key = f"moasha:{name}:{clause}:{str(d).lower()}-expected-{want}"
        if clause == "decision":
            key += f":{why}"
        return [(key, f"trial {t} resource {r} bracket {b} canonical objectives {vec}: implementation {d}, "
                      f"documented rule {sorted(exp)} ({why}; {info})")]

    def expected(self, t, r, vec, b):
        if r >= self.max_t:
            return {"STOP"}, "max_t", f"resource {r} >= max_t {self.max_t}"
        if r not in self.levels[b]:
            return {"CONTINUE"}, "no-rung", f"levels of bracket {b}: {self.levels[b]}"
        lst = self.rungs[b].setdefault(r, [])
        if any(tt == t for tt, _ in lst):
            return {"CONTINUE"}, "already-recorded", ""
        lst.append((t, vec))
        n = len(lst)
        pts = [v for _, v in lst]
        a, bb, near = self.ranks(pts)
        if near:
            return {"CONTINUE", "STOP"}, "near-tie", "scalar priorities within 1e-9"
        exp, why = decision_band(a, bb, n, self.rf)
        slack = " (slack: several points share the layer)" if bb - a > 1 else ""
        return exp, why, f"n={n} strictly-better a={a} not-worse b={bb} rf={self.rf} rung {r}: {pts}{slack}"

    def ranks(self, pts):
        kind, arg = self.prio
        me = len(pts) - 1
        if kind == "nd":
            lay = layers(pts)
            a = sum(1 for x in lay if x < lay[me])
            b = sum(1 for x in lay if x <= lay[me])
            return a, b, False
        if kind == "fixed":
            k = arg or 0
            vals = [p[k] for p in pts]
        else:
            d = len(pts[0])
            w = list(arg) if arg is not None else [1.0] * d
            vals = [sum(wi * xi for wi, xi in zip(w, p)) / d for p in pts]
        near = any(abs(v - vals[me]) <= 1e-9 * max(1.0, abs(v)) for i, v in enumerate(vals) if i != me)
        a = sum(1 for v in vals if v < vals[me])
        b = sum(1 for v in vals if v <= vals[me])
        return a, b, near

    def diagnose(self, world, b, r):
        """Root-cause tag for a wrong NonDominatedPriority decision: does the real priority object return
        a sort order (list of indices) where a priority vector (rank per element) is documented?"""
        pts = [v for _, v in self.rungs[b][r]]
        try:
            import numpy as np
            with world.rng_stub():
                p = world.s._multiobjective_priority(np.array(pts, dtype=float))
            p = [x.item() if hasattr(x, "item") else x for x in p]
        except Exception:
            return None
        lay = layers(pts)
        if not rank_consistent(p, lay) and order_consistent(p, lay):
            return "rank-vs-argsort"
        if not rank_consistent(p, lay):
            return "priority-not-pareto-consistent"
        return None

    def digest(self):
        return repr((self.rungs, sorted(self.bracket.items())))


class RungContents(Oracle):
    """Recorded objective vectors per (bracket, rung level) equal the reference's, in arrival order."""

    def __init__(self, ref):
        self.ref = ref

    def after(self, world, ev, obs):
        if obs[0] not in ("report", "complete"):
            return []
        try:
            impl = []
            for br in world.s._brackets:
                d = {}
                for milestone, recorded in br._rungs:
                    if recorded and milestone < self.ref.max_t:
                        d[milestone] = [(int(t), tuple(float(m[k]) for k in self.ref.metrics))
                                        for t, m in recorded.items()]
                impl.append(d)
        except (AttributeError, KeyError, TypeError):
            return []
        ref = [{lv: list(lst) for lv, lst in d.items() if lst} for d in self.ref.rungs]
        if impl != ref:
            kind = "levels" if [sorted(d) for d in impl] != [sorted(d) for d in ref] else "values"
            return [(f"moasha:rung-contents:{kind}",
                     f"recorded rung contents differ: implementation {impl} reference {ref}")]
        return []
