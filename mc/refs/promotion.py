"""Reference model for promotion-type asynchronous Hyperband (C04): ASHA, PASHA cap, cost-aware."""
from ..schedx import Oracle, PAUSED
from .rungs import prom_quantile, cutoff, near


class PromotionRef(Oracle):
    def __init__(self, levels, max_t, mode, nb, per_bracket, kind="promotion", mra=None, metric="m",
                 cost_attr="cost"):
        self.levels = levels
        self.max_t = max_t
        self.mode = mode
        self.nb = nb
        self.per_bracket = per_bracket
        self.kind = kind  # promotion | pasha | cost_promotion
        self.mra = mra
        self.nsys = nb if per_bracket else 1
        # sys -> level -> list of entries [t, v, cost, promoted]
        self.rungs = [dict() for _ in range(self.nsys)]
        self.sys_of = {}
        self.milestone = {}
        self.resume_from = {}
        self.caps = [None] * self.nsys
        self.accept = None
        self.near_ties = 0
        self.cost_offset = {}

    # ---- helpers
    def sys_levels(self, s):
        return self.levels[s:] if self.per_bracket else self.levels

    def first_milestone(self, b):
        if self.per_bracket:
            lv = self.levels[b:]
            return lv[0] if lv else self.max_t
        return self.levels[b] if b < len(self.levels) else self.max_t

    def next_level(self, s, r):
        lv = self.sys_levels(s)
        j = lv.index(r)
        return lv[j + 1] if j + 1 < len(lv) else self.max_t

    def _cap(self, world, s):
        if self.kind != "pasha":
            return self.max_t
        try:
            return world.s.terminator._rung_systems[s].current_max_t
        except AttributeError:
            return self.max_t

    def _scan(self, s, cap):
        """-> list of acceptable outcomes: ('resume', t, r, milestone) ... or ('new',)"""
        out = []
        for r in sorted(self.sys_levels(s), reverse=True):
            if not (r < cap):
                continue
            entries = self.rungs[s].get(r, [])
            if len(entries) < 2:
                continue
            q = prom_quantile(self.levels, self.max_t, r)
            best_first = sorted(entries, key=lambda e: e[1] if self.mode == "min" else -e[1])
            if self.kind == "cost_promotion":
                thr = sum(e[2] for e in entries) * q
                cum = 0.0
                decided = False
                for e in best_first:
                    cum += e[2]
                    if near(cum, thr):
                        self.near_ties += 1
                        if not e[3]:
                            out.append(("resume", e[0], r, self.next_level(s, r)))
                        decided = None  # ambiguous: may also break here
                        break
                    if cum > thr:
                        break
                    if not e[3]:
                        out.append(("resume", e[0], r, self.next_level(s, r)))
                        decided = True
                        break
                if decided is True:
                    return out
                continue
            cut = cutoff([e[1] for e in entries], q, self.mode)
            cand = [e for e in best_first if not e[3]]
            if not cand:
                continue
            e = cand[0]
            if near(e[1], cut):
                self.near_ties += 1
                out.append(("resume", e[0], r, self.next_level(s, r)))
                continue  # either way
            ok = e[1] <= cut if self.mode == "min" else e[1] >= cut
            if ok:
                out.append(("resume", e[0], r, self.next_level(s, r)))
                return out
        out.append(("new",))
        return out

    # ---- oracle interface
    def before(self, world, ev):
        if ev[0] == "S":
            b = ev[1] or 0
            s = b if self.per_bracket else 0
            cap = self._cap(world, s)
            self._b = b
            self._s = s
            self._capnow = cap
            self.accept = self._scan(s, cap)

    def after(self, world, ev, obs):
        v = []
        # PASHA cap invariants (every event)
        if self.kind == "pasha":
            for s in range(self.nsys):
                cap = self._cap(world, s)
                allowed = set(self.levels) | {self.max_t}
                if cap not in allowed:
                    v.append(("pasha:cap-not-a-rung-level", f"current cap {cap} not in {sorted(allowed)}"))
                if self.caps[s] is not None and cap < self.caps[s]:
                    v.append(("pasha:cap-decreased", f"cap went from {self.caps[s]} to {cap}"))
                self.caps[s] = cap
        if obs[0] == "suggest":
            v += self._after_suggest(world, obs)
        elif obs[0] == "report":
            v += self._after_report(world, obs)
        return v

    def _after_suggest(self, world, obs):
        b, s = self._b, self._s
        if obs[1] == "none":
            return [("promotion:suggest-none", "suggest returned None on an infinite space")]
        if obs[1] in ("start", "over_T"):
            if ("new",) not in self.accept:
                exp = [a for a in self.accept if a[0] == "resume"]
                return [("promotion:eligible-not-promoted",
                         f"suggest(bracket {b}) started a new trial although trial {exp[0][1]} at rung {exp[0][2]} is eligible")]
            if obs[1] == "over_T":
                return []
            t = obs[2]
            self.sys_of[t] = s
            m = self.first_milestone(b)
            self.milestone[t] = m
            self.resume_from[t] = None
            if self.mra:
                got = world.trials[t].config.get(self.mra)
                if got != m:
                    return [("promotion:new-trial-wrong-max-resource",
                             f"new trial {t} in bracket {b} told to run to {got}, first milestone is {m}")]
            return []
        # resume
        t = obs[2]
        if obs[4] != PAUSED:
            return [("promotion:resume-not-paused", f"trial {t} resumed while its status is {obs[4]}")]
        match = [a for a in self.accept if a[0] == "resume" and a[1] == t]
        if not match:
            exp = self.accept
            r_here = world.level[t] if not world.scratch else world.resumed_from.get(t)
            why = "already-promoted" if any(e[0] == t and e[3] for e in self.rungs[self.sys_of.get(t, 0)].get(self.milestone.get(t), [])) else "not-eligible-or-not-best"
            return [(f"promotion:wrong-trial-promoted:{why}",
                     f"suggest(bracket {b}) resumed trial {t}; reference accepts {exp}")]
        _, _, r, m = match[0]
        for e in self.rungs[s][r]:
            if e[0] == t:
                e[3] = True
        self.milestone[t] = m
        self.resume_from[t] = r
        if m > self._capnow and self.kind == "pasha":
            # promotion target above cap is allowed only as the next level right above a rung < cap
            pass
        if m > self.max_t:
            return [("promotion:milestone-above-max", f"trial {t} promoted to {m} > max_t")]
        if self.mra:
            cfg = world.trials[t].config
            if cfg.get(self.mra) != m:
                return [("promotion:resume-wrong-max-resource",
                         f"trial {t} resumed from {r} told to run to {cfg.get(self.mra)}, next rung level is {m}")]
        return []

    def _after_report(self, world, obs):
        _, t, r, d = obs
        m = self.milestone[t]
        s = self.sys_of[t]
        if r > self.max_t:
            return [("promotion:beyond-max", f"trial {t} reported level {r} > max_t")]
        if r < m:
            exp = "CONTINUE"
        elif r >= self.max_t:
            exp = "STOP"
        else:
            exp = "PAUSE"
        if r == m and m < self.max_t and m in self.sys_levels(s):
            res = world.last_res[t]
            cost = None
            if self.kind == "cost_promotion":
                cost = world.spec["cost"][t - world.spec.get("id0", 0)][r - 1]  # total cost to reach level r (cumulative table)
            self.rungs[s].setdefault(r, []).append([t, res[world.metric], cost, False])
        if d != exp:
            return [(f"promotion:decision:{exp}-expected-got-{d}",
                     f"trial {t} level {r} milestone {m}: implementation {d}, reference {exp}")]
        return []

    def digest(self):
        return repr((self.rungs, sorted(self.sys_of.items()), sorted(self.milestone.items()),
                     sorted((k, v) for k, v in self.resume_from.items()), sorted(self.cost_offset.items())))
