"""Reference model for stopping-type asynchronous Hyperband (C03), incl. RUSH thresholds."""
from ..schedx import Oracle
from .rungs import prom_quantile, cutoff, near


class StoppingRef(Oracle):
    def __init__(self, levels, max_t, mode, nb, per_bracket, rush_k=None, metric="m"):
        self.levels = levels
        self.max_t = max_t
        self.mode = mode
        self.per_bracket = per_bracket
        self.nsys = nb if per_bracket else 1
        self.rungs = [dict() for _ in range(self.nsys)]  # sys -> level -> [(trial, val)]
        self.bracket = {}
        self.rush_k = rush_k
        self.thresholds = {}
        self.near_ties = 0
        self._pending_bracket = None

    def before(self, world, ev):
        if ev[0] == "S":
            self._pending_bracket = ev[1] or 0

    def after(self, world, ev, obs):
        if obs[0] == "suggest":
            if obs[1] == "start":
                self.bracket[obs[2]] = self._pending_bracket
            elif obs[1] == "resume":
                return [("stopping:resume-suggested", "stopping-type scheduler suggested to resume a trial")]
            return []
        if obs[0] != "report":
            return []
        _, t, r, d = obs
        v = world.last_res[t][world.metric]
        b = self.bracket[t]
        exp, why = self._expected(t, r, v, b)
        if d not in exp:
            return [(f"stopping:decision:{'/'.join(sorted(exp))}-expected-got-{d}:{why}",
                     f"trial {t} level {r} value {v} bracket {b}: implementation {d}, reference {sorted(exp)} ({why})")]
        if why == "tie-candidate" and d == "CONTINUE":
            # adopt the implementation's choice inside the tolerance band
            cur = self.thresholds.get(r)
            self.thresholds[r] = v if cur is None else (min(cur, v) if self.mode == "min" else max(cur, v))
        # follow the implementation inside the tolerance band (nothing to adopt: the entry is recorded either way)
        return []

    def _expected(self, t, r, v, b):
        if r >= self.max_t:
            return {"STOP"}, "max_t"
        own = self.levels[b:]
        sysid = b if self.per_bracket else 0
        lst = self.rungs[sysid].setdefault(r, []) if r in own else None
        if lst is None:
            return {"CONTINUE"}, "not-own-rung-level"
        if any(tt == t for tt, _ in lst):
            return {"CONTINUE"}, "already-in-rung"
        lst.append((t, v))
        if len(lst) < 2:
            base = {"CONTINUE"}
            why = "fewer-than-two"
        else:
            q = prom_quantile(self.levels, self.max_t, r)
            cut = cutoff([x for _, x in lst], q, self.mode)
            if near(v, cut):
                self.near_ties += 1
                base = {"CONTINUE", "STOP"}
                why = "tie"
            else:
                ok = v <= cut if self.mode == "min" else v >= cut
                base = {"CONTINUE"} if ok else {"STOP"}
                why = "quantile"
        if self.rush_k is None or self.rush_k <= 0:
            return base, why
        # RUSH: documented threshold rule on top of the quantile rule
        if base == {"STOP"}:
            return base, why
        if t < self.rush_k:
            if "STOP" in base:
                return base, "tie-candidate"  # threshold update depends on impl. choice -> accept both
            cur = self.thresholds.get(r)
            better = v if cur is None else (min(cur, v) if self.mode == "min" else max(cur, v))
            self.thresholds[r] = better
            return {"CONTINUE"}, "rush-candidate"
        cur = self.thresholds.get(r)
        if cur is None:
            return base, why
        meets = v <= cur if self.mode == "min" else v >= cur
        if meets:
            return base, why + "+rush-ok"
        return {"STOP"}, "rush-threshold"

    def digest(self):
        return repr((self.rungs, sorted(self.bracket.items()), sorted(self.thresholds.items())))
